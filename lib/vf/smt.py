"""SMT engine (source -> SMT-LIB2, z3 + cvc5).  Filled in by the S units."""
from .extract import Inconclusive


def prepare_unit(u, prop, tier, only):
    return u["mod"].prepare(u, prop, tier, only)


def decide_unit(prep, log_dir):
    return prep["unit"]["mod"].decide(prep, log_dir)


def replay(u, rec):
    return u["mod"].replay(rec)
