"""Rust source extraction helpers.

Everything the checks encode is read from /repo's *current working tree* with these helpers at
run time.  A helper that cannot find what it is asked for raises `Inconclusive` -- the check then
exits 2 without a verdict; it never guesses.
"""
import hashlib
import os
import re
import subprocess


class Inconclusive(Exception):
    pass


REPO = os.environ.get("VERIF_REPO", "/repo")


class Repo:
    def __init__(self, root=REPO):
        self.root = root
        self.read_files = {}

    def read(self, rel):
        p = os.path.join(self.root, rel)
        try:
            with open(p, encoding="utf-8") as f:
                t = f.read()
        except OSError as e:
            raise Inconclusive(f"cannot read {rel}: {e}")
        self.read_files[rel] = blob_hash(t)
        return t


def blob_hash(text):
    data = text.encode("utf-8")
    h = hashlib.sha1()
    h.update(b"blob %d\0" % len(data))
    h.update(data)
    return h.hexdigest()


def mask_code(text):
    """Same-length copy of `text` with comments, string/char literals blanked (newlines kept)."""
    out = list(text)
    i, n = 0, len(text)

    def blank(a, b):
        for k in range(a, b):
            if out[k] != "\n":
                out[k] = " "

    while i < n:
        c = text[i]
        if text.startswith("//", i):
            j = text.find("\n", i)
            j = n if j < 0 else j
            blank(i, j)
            i = j
        elif text.startswith("/*", i):
            depth, j = 1, i + 2
            while j < n and depth:
                if text.startswith("/*", j):
                    depth += 1
                    j += 2
                elif text.startswith("*/", j):
                    depth -= 1
                    j += 2
                else:
                    j += 1
            blank(i, j)
            i = j
        elif c == '"' or (c in "br" and re.match(r'(b?r#*"|b")', text[i:i + 6]) and (i == 0 or not (text[i - 1].isalnum() or text[i - 1] == "_"))):
            m = re.match(r'b?r(#*)"', text[i:])
            if m:
                hashes = m.group(1)
                start = i + m.end()
                end = text.find('"' + hashes, start)
                end = n if end < 0 else end + 1 + len(hashes)
                blank(i + m.end(), end - 1 - len(hashes))
                i = end
            else:
                j = i + (2 if c == "b" else 1)
                while j < n and text[j] != '"':
                    j += 2 if text[j] == "\\" else 1
                blank(i + 1, j)
                i = j + 1
        elif c == "'":
            # char literal or lifetime
            m = re.match(r"'(\\.[^']*|[^\\'])'", text[i:])
            if m:
                blank(i + 1, i + m.end() - 1)
                i += m.end()
            else:
                i += 1
        else:
            i += 1
    return "".join(out)


def match_brace(masked, open_idx, open_ch="{", close_ch="}"):
    assert masked[open_idx] == open_ch, (masked[open_idx - 20:open_idx + 20])
    depth = 0
    for j in range(open_idx, len(masked)):
        ch = masked[j]
        if ch == open_ch:
            depth += 1
        elif ch == close_ch:
            depth -= 1
            if depth == 0:
                return j
    raise Inconclusive("unbalanced braces")


def strip_tests(text):
    """Cut the trailing `#[cfg(test)] mod ... { }` of a file."""
    masked = mask_code(text)
    ms = list(re.finditer(r"^#\[cfg\(test\)\]\s*\n(?:\s*#\[[^\n]*\]\s*\n)*\s*(pub\s+)?mod\s+\w+\s*\{", masked, re.M))
    if not ms:
        return text
    m = ms[-1]
    close = match_brace(masked, m.end() - 1)
    return text[:m.start()] + text[close + 1:]


def _item_start(text, idx):
    """Walk back from `idx` (start of an item header line) over attributes and doc comments."""
    line_start = text.rfind("\n", 0, idx) + 1
    while line_start > 0:
        prev_end = line_start - 1
        prev_start = text.rfind("\n", 0, prev_end) + 1
        prev = text[prev_start:prev_end].strip()
        if prev.startswith("#[") or prev.startswith("///") or prev.startswith("//!"):
            line_start = prev_start
        else:
            break
    return line_start


def extract_item(text, header_regex, which=0, with_attrs=True):
    """Return the full text of the item whose header matches `header_regex` (searched in code,
    not comments): from its attributes/doc comments to the matching close brace (or `;`)."""
    masked = mask_code(text)
    ms = list(re.finditer(header_regex, masked, re.M))
    if len(ms) <= which:
        raise Inconclusive(f"item not found: /{header_regex}/ (#{which})")
    m = ms[which]
    # find the body start: first `{` or `;` at paren/bracket depth 0 after the header
    depth = 0
    j = m.start()
    while j < len(masked):
        ch = masked[j]
        if ch in "([":
            depth += 1
        elif ch in ")]":
            depth -= 1
        elif ch == "{" and depth == 0:
            end = match_brace(masked, j)
            break
        elif ch == ";" and depth == 0:
            end = j
            break
        j += 1
    else:
        raise Inconclusive(f"no body for /{header_regex}/")
    start = _item_start(text, m.start()) if with_attrs else m.start()
    return text[start:end + 1]


def extract_items(text, header_regexes):
    return "\n\n".join(extract_item(text, h) for h in header_regexes)


def extract_block_after(text, anchor_regex, open_regex, which=0):
    """Find `anchor_regex`, then the first `open_regex` (which must end in `{`) after it, and
    return (header_text, body_text_without_braces)."""
    masked = mask_code(text)
    ms = list(re.finditer(anchor_regex, masked, re.M))
    if len(ms) <= which:
        raise Inconclusive(f"anchor not found: /{anchor_regex}/")
    a = ms[which]
    o = re.compile(open_regex, re.M).search(masked, a.end())
    if not o:
        raise Inconclusive(f"block not found after /{anchor_regex}/: /{open_regex}/")
    close = match_brace(masked, o.end() - 1)
    return text[o.start():o.end()], text[o.end():close]


def fn_body(item_text):
    masked = mask_code(item_text)
    j = masked.find("{")
    # skip where-clauses etc: first `{` at depth 0
    depth = 0
    for j, ch in enumerate(masked):
        if ch in "([":
            depth += 1
        elif ch in ")]":
            depth -= 1
        elif ch == "{" and depth == 0:
            break
    close = match_brace(masked, j)
    return item_text[j + 1:close]


class Subs:
    """Literal / regex substitutions, each of which must match exactly `count` times."""

    def __init__(self):
        self.log = []

    def lit(self, text, old, new, count=1, why=""):
        c = text.count(old)
        if c != count:
            raise Inconclusive(f"substitution expected {count} match(es), found {c}: {old!r}")
        self.log.append({"old": old, "new": new, "count": count, "why": why})
        return text.replace(old, new)

    def rx(self, text, pattern, new, count=1, why="", flags=re.M):
        r = re.compile(pattern, flags)
        c = len(r.findall(text))
        if count is not None and c != count:
            raise Inconclusive(f"regex substitution expected {count} match(es), found {c}: {pattern!r}")
        if count is None and c == 0:
            raise Inconclusive(f"regex substitution found no match: {pattern!r}")
        self.log.append({"regex": pattern, "new": new, "count": c, "why": why})
        return r.sub(new, text)


def git_head(root=REPO):
    try:
        return subprocess.run(["git", "-C", root, "rev-parse", "HEAD"], capture_output=True, text=True).stdout.strip()
    except Exception:
        return "unknown"


def remove_item(text, header_regex, which=0):
    """Return `text` without the item whose header matches (attributes/doc comments included)."""
    item = extract_item(text, header_regex, which)
    if text.count(item) != 1:
        raise Inconclusive(f"item to remove is not unique: /{header_regex}/")
    return text.replace(item, "")


def cut_before(text, marker_regex):
    """Drop everything before the line on which `marker_regex` first matches (in code or comments)."""
    m = re.search(marker_regex, text, re.M)
    if not m:
        raise Inconclusive(f"marker not found: /{marker_regex}/")
    return text[text.rfind("\n", 0, m.start()) + 1:]
