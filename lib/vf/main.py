"""check <PROPERTY> [--tier quick|thorough] [--replay FILE] [--only unit.harness,...]

Decides one property by discharging its registered solver queries over encodings regenerated
from /repo's working tree.  Exit 0: every query that reached a verdict held (known findings are
printed as KNOWN-FINDING).  Exit 1: a counterexample was produced by the solver, replayed
natively, and is not listed in KNOWN_FINDINGS.txt -> `VIOLATION property=<id> replay=<path>`.
Exit 2: nothing could be decided (build/translation failure, every query inconclusive, or a
counterexample that does not reproduce natively).
"""
import argparse
import concurrent.futures as cf
import importlib.util
import json
import os
import re
import sys
import time
import traceback

from . import kani as K
from . import smt as S
from .extract import Inconclusive, Repo, Subs, git_head

VERIF = K.VERIF
UNITS_DIR = os.path.join(VERIF, "units")
# runs against another tree (VERIF_REPO, used by tools/try_seed_wt.sh) must not overwrite the evidence of /repo
EVID_DIR = os.path.join(VERIF, "evidence") if not os.environ.get("VERIF_REPO") else os.path.join(K.BUILD, "evidence_other_tree")
REPLAY_DIR = os.path.join(VERIF, "replay")
KNOWN = os.path.join(VERIF, "KNOWN_FINDINGS.txt")
JOBS = int(os.environ.get("VERIF_JOBS", "8"))


def load_units():
    units = []
    for name in sorted(os.listdir(UNITS_DIR)):
        up = os.path.join(UNITS_DIR, name, "unit.py")
        if not os.path.isfile(up):
            continue
        spec = importlib.util.spec_from_file_location(f"unit_{name}", up)
        mod = importlib.util.module_from_spec(spec)
        spec.loader.exec_module(mod)
        u = dict(mod.UNIT)
        u["name"] = name
        u["dir"] = os.path.join(UNITS_DIR, name)
        u["mod"] = mod
        u.setdefault("kind", "kani")
        units.append(u)
    return units


def load_known():
    known, fixed = [], []
    if os.path.isfile(KNOWN):
        for line in open(KNOWN):
            line = line.strip()
            if not line or line.startswith("#"):
                continue
            m = re.match(r"known:\s+property=(\S+)\s+key=(\S+)\s+check=\"([^\"]*)\"\s*(.*)$", line)
            if m:
                known.append({"property": m.group(1), "key": m.group(2), "check": m.group(3), "text": m.group(4)})
                continue
            m = re.match(r"fixed:\s+property=(\S+)\s+(\S+)\s+(.*)$", line)
            if m:
                fixed.append({"property": m.group(1), "commit": m.group(2), "text": m.group(3)})
    return known, fixed


def select(harnesses, prop, tier):
    out = []
    for h in harnesses:
        if prop not in h["props"]:
            continue
        if tier == "thorough" or h["tier"] == "quick" or prop in h.get("quick_for", []):
            if tier == "quick" and h["tier"] != "quick" and prop not in h.get("quick_for", []):
                continue
            out.append(h)
    return out


def load_harness_text(u, repo):
    """harness.rs of the unit, or -- for units whose harnesses are generated from the source (one per
    macro invocation, say) -- the text returned by unit.gen_harness(repo)."""
    if hasattr(u["mod"], "gen_harness"):
        return u["mod"].gen_harness(repo)
    return open(os.path.join(u["dir"], "harness.rs"), encoding="utf-8").read()


def prepare_kani_unit(u, prop, tier, only):
    repo = Repo()
    subs = Subs()
    htext = load_harness_text(u, repo)
    metas = K.parse_harness_meta(htext)
    sel = select(metas, prop, tier)
    if only:
        sel = [h for h in sel if f"{u['name']}.{h['name']}" in only or u["name"] in only]
    if not sel:
        return None
    files = u["mod"].build(repo, subs)
    files = dict(files)
    files["src/harness.rs"] = htext
    crate_dir = K.generate_crate(u, files, metas)
    return {"unit": u, "crate_dir": crate_dir, "harnesses": sel, "repo_files": repo.read_files, "subs": subs.log}


def decide_kani(prep, h, log_dir):
    u = prep["unit"]
    r = K.run_kani(prep["crate_dir"], u, h, log_dir)
    r["desc"] = h.get("desc", "")
    # harnesses that declare need_cover=0 have no assumption besides an index range: reachable by construction
    r["nontrivial"] = not h.get("need_cover", True)
    if r["status"] in ("TIMEOUT",) and os.environ.get("VERIF_RETRY", "0") == "1":
        h2 = dict(h)
        h2["timeout"] = h["timeout"] * 2
        r2 = K.run_kani(prep["crate_dir"], u, h2, log_dir)
        r2["retried"] = True
        r = r2
    if r["status"] == "FAIL":
        pb = K.run_kani(prep["crate_dir"], u, h, log_dir, playback=True)
        vals = pb.get("playback_values")
        r["playback_values"] = vals
        if vals is None:
            r["replay"] = [{"outcome": "NO_PLAYBACK", "detail": "Kani produced no concrete playback"}]
        else:
            r["replay"] = [K.native_replay(prep["crate_dir"], u, h, vals, "dev"),
                           K.native_replay(prep["crate_dir"], u, h, vals, "release")]
    return r


def classify(r):
    """-> 'pass' | 'violation' | 'inconclusive'"""
    if r["status"] == "PASS":
        return "pass"
    if r["status"] == "FAIL":
        rep = r.get("replay") or []
        only_unwind = all("unwinding assertion" in f["desc"] for f in r["failed"]) if r["failed"] else False
        for x in rep:
            if x["outcome"] == "REPRODUCED":
                return "violation"
            if x["outcome"] == "HANG" and only_unwind:
                return "violation"
        return "inconclusive"
    return "inconclusive"


def main(argv=None):
    ap = argparse.ArgumentParser()
    ap.add_argument("property")
    ap.add_argument("--tier", default=os.environ.get("VERIF_TIER", "quick"), choices=["quick", "thorough"])
    ap.add_argument("--replay")
    ap.add_argument("--only", default="")
    ap.add_argument("--list", action="store_true")
    args = ap.parse_args(argv)
    prop, tier = args.property, args.tier
    seed = int(os.environ.get("VERIF_SEED", "0") or 0)
    only = set(x for x in args.only.split(",") if x)
    t0 = time.time()
    os.makedirs(EVID_DIR, exist_ok=True)
    log_dir = os.path.join(K.BUILD, "logs", prop)

    if args.replay:
        return do_replay(prop, args.replay)

    units = load_units()
    known, fixed = load_known()
    results = []
    unit_infos = []
    inconclusive_units = []
    jobs = []

    for u in units:
        try:
            if u["kind"] == "kani":
                prep = prepare_kani_unit(u, prop, tier, only)
                if prep is None:
                    continue
                unit_infos.append(prep)
                for h in prep["harnesses"]:
                    jobs.append(("kani", prep, h))
            elif u["kind"] == "smt":
                prep = S.prepare_unit(u, prop, tier, only)
                if prep is None:
                    continue
                unit_infos.append(prep)
                jobs.append(("smt", prep, None))
        except Inconclusive as e:
            inconclusive_units.append({"unit": u["name"], "reason": str(e)})
        except Exception as e:  # tool failure, never a verdict
            inconclusive_units.append({"unit": u["name"], "reason": "internal error: " + repr(e) + " " + traceback.format_exc()[-800:]})

    if args.list:
        for kind, prep, h in jobs:
            print(kind, prep["unit"]["name"], h["name"] if h else "*")
        return 0

    def work(job):
        kind, prep, h = job
        try:
            if kind == "kani":
                return [decide_kani(prep, h, log_dir)]
            return S.decide_unit(prep, log_dir)
        except Inconclusive as e:
            return [{"unit": prep["unit"]["name"], "harness": h["name"] if h else "*", "status": "ERROR", "reason": str(e), "failed": [], "covers": []}]
        except Exception as e:
            return [{"unit": prep["unit"]["name"], "harness": h["name"] if h else "*", "status": "ERROR",
                     "reason": "internal error: " + repr(e) + traceback.format_exc()[-800:], "failed": [], "covers": []}]

    # longest first
    jobs.sort(key=lambda j: -(j[2]["timeout"] if j[2] else 10 ** 6))
    with cf.ThreadPoolExecutor(max_workers=JOBS) as ex:
        for rs in ex.map(work, jobs):
            results.extend(rs)

    # ---- verdicts
    violations, known_hits, inconc, passed = [], [], [], []
    for r in results:
        c = classify(r)
        r["class"] = c
        key = f"{r['unit']}.{r['harness']}"
        if c == "pass":
            passed.append(r)
        elif c == "violation":
            descs = [f["desc"] for f in r["failed"]]
            ks = [k for k in known if k["property"] == prop and k["key"] == key]
            if ks and all(any(k["check"] in d for k in ks) for d in descs):
                known_hits.append((r, ks))
            else:
                violations.append(r)
        else:
            inconc.append(r)

    os.makedirs(os.path.join(REPLAY_DIR, prop), exist_ok=True)
    exit_code = 0
    for r, ks in known_hits:
        for k in ks:
            print(f"KNOWN-FINDING: property={prop} {k['key']} {k['text']}")
    for r in violations:
        path = os.path.join(REPLAY_DIR, prop, f"{r['unit']}.{r['harness']}.json")
        with open(path, "w") as f:
            json.dump({"property": prop, "unit": r["unit"], "harness": r["harness"], "engine": r.get("engine", "kani"),
                       "failed_checks": r["failed"], "values": r.get("playback_values"), "model": r.get("model"),
                       "replay": r.get("replay"), "repo_head": git_head()}, f, indent=1)
        print(f"VIOLATION property={prop} replay={path}")
        for fc in r["failed"][:3]:
            print(f"  failed: {r['unit']}.{r['harness']}: {fc['desc']} [{fc.get('loc','')}]")
        for x in (r.get("replay") or [])[:1]:
            print("  native replay:", x["outcome"], x.get("detail", "").splitlines()[0] if x.get("detail") else "")
        exit_code = 1
    for r in inconc:
        print(f"INCONCLUSIVE: property={prop} {r['unit']}.{r['harness']} {r['status']} {r.get('reason','')[:300]}")
        if r["status"] == "FAIL":
            for fc in r["failed"][:3]:
                print(f"  solver counterexample not reproduced natively: {fc['desc']}; replay={[(x['outcome']) for x in r.get('replay') or []]}")
    for iu in inconclusive_units:
        print(f"INCONCLUSIVE: property={prop} unit={iu['unit']} {iu['reason'][:500]}")

    decided = len(passed) + len(violations) + len(known_hits)
    if exit_code == 0:
        unreproduced = [r for r in inconc if r["status"] == "FAIL"]
        if decided == 0 or unreproduced or (inconclusive_units and not passed):
            exit_code = 2
        elif inconclusive_units:
            # a whole unit could not be encoded from the current tree: no verdict for its queries
            exit_code = 2
        elif any(r["status"] == "ERROR" and "build or tool failure" in r.get("reason", "") for r in inconc):
            # the generated crate no longer compiles against the current source: the encoding is stale, say so
            exit_code = 2

    write_evidence(prop, tier, seed, t0, unit_infos, results, passed, violations, known_hits, inconc, inconclusive_units, fixed)
    print(f"property={prop} tier={tier} queries={len(results)} held={len(passed)} violations={len(violations)} "
          f"known={len(known_hits)} inconclusive={len(inconc) + len(inconclusive_units)} wall={time.time() - t0:.1f}s exit={exit_code}")
    return exit_code


def write_evidence(prop, tier, seed, t0, unit_infos, results, passed, violations, known_hits, inconc, inconclusive_units, fixed):
    funcs, models, bounds, outside, subs, engines = [], [], {}, [], [], set()
    for p in unit_infos:
        u = p["unit"]
        engines.add(u.get("engine", u["kind"]))
        for rel, h in p.get("repo_files", {}).items():
            funcs.append({"file": rel, "git_blob": h, "items": u.get("encoded", {}).get(rel, u.get("encoded_items", []))})
        models += [f"{u['name']}: {m}" for m in u.get("models", [])]
        if u.get("bounds"):
            bounds[u["name"]] = u["bounds"]
        outside += [f"{u['name']}: {o}" for o in u.get("outside", [])]
        for s in p.get("subs", []):
            subs.append({"unit": u["name"], **s})
    samples = []
    for r in results:
        s = {"query": f"{r['unit']}.{r['harness']}", "verdict": r["status"], "class": r.get("class"),
             "wall_s": r.get("wall_s"), "solver_s": r.get("solver_s"), "vars": r.get("vars"), "clauses": r.get("clauses"),
             "checks": r.get("n_checks"), "desc": r.get("desc", "")}
        if r.get("covers"):
            s["reachability_witnesses"] = [f"{c['desc']}: {c['status']}" for c in r["covers"]]
        if r.get("reason"):
            s["reason"] = r["reason"][:400]
        if r.get("failed"):
            s["failed_checks"] = [f["desc"] for f in r["failed"]][:5]
        if r.get("replay"):
            s["native_replay"] = [x["outcome"] for x in r["replay"]]
        if r.get("witness"):
            s["witness"] = r["witness"]
        samples.append(s)
    nontrivial = sum(1 for r in passed if r.get("covers") or r.get("nontrivial"))
    solver_time = round(sum((r.get("solver_s") or 0) for r in results), 2)
    cov = {
        "explanation": (
            "Bounded symbolic execution of the repository's own function bodies (regenerated from /repo's working "
            "tree on this run) decided by a SAT/SMT solver: each query is one harness/obligation whose inputs are "
            "symbolic; 'held' means the solver showed the assertion holds for every input within the stated bounds "
            "(unwinding assertions on), it is not a proof beyond them."),
        "evaluations": len(results),
        "distinct_nontrivial": nontrivial,
        "rule": "one evaluation = one solver query (Kani harness or SMT obligation); non-trivial = it reached a 'held' "
                "verdict AND its reachability witness (kani::cover) was satisfiable, i.e. the assertion is reached by at "
                "least one input -- or the harness has no assumption besides an index range (bit-packing kernels, fixed-length "
                "hamming), where a cover would only add a trace; queries are distinct by name",
        "obligations": len(results),
        "discharged": len(passed),
        "samples": samples,
        "engines": sorted(engines),
        "functions_encoded": funcs,
        "bounds": bounds,
        "stubs_and_models": models,
        "substitutions": subs,
        "solver_time_s": solver_time,
        "max_vars": max([r.get("vars") or 0 for r in results] + [0]),
        "max_clauses": max([r.get("clauses") or 0 for r in results] + [0]),
        "inconclusive": [{"query": f"{r['unit']}.{r['harness']}", "status": r["status"], "reason": r.get("reason", "")[:300]} for r in inconc]
                        + [{"unit": x["unit"], "reason": x["reason"][:300]} for x in inconclusive_units],
        "known_findings_hit": [f"{r['unit']}.{r['harness']}" for r, _ in known_hits],
        "fixed_findings_on_record": [f for f in fixed if f["property"] == prop],
        "outside_the_claim": outside,
        "repo_head": git_head(),
        "trusted_base": ["rustc/Kani 0.68 MIR->goto translation", "CBMC 6.11 + CaDiCaL", "z3 4.8.12 and cvc5 1.0 (must agree)",
                         "the container/environment models listed under stubs_and_models",
                         "the substitution list (environment replacements only)"],
    }
    ev = {
        "property_id": prop, "tier": tier, "seed": seed, "level": "other", "coverage": cov,
        "assumptions": sorted(set(models + [f"bounds: {json.dumps(bounds, sort_keys=True)}"])),
        "wall_s": round(time.time() - t0, 2),
        "violations": len(violations),
    }
    with open(os.path.join(EVID_DIR, f"{prop}.json"), "w") as f:
        json.dump(ev, f, indent=1)


def do_replay(prop, path):
    rec = json.load(open(path))
    units = {u["name"]: u for u in load_units()}
    u = units[rec["unit"]]
    if u["kind"] == "smt":
        return S.replay(u, rec)
    repo, subs = Repo(), Subs()
    htext = load_harness_text(u, repo)
    metas = K.parse_harness_meta(htext)
    h = [m for m in metas if m["name"] == rec["harness"]][0]
    files = dict(u["mod"].build(repo, subs))
    files["src/harness.rs"] = htext
    crate_dir = K.generate_crate(u, files, metas)
    r = K.native_replay(crate_dir, u, h, rec["values"], "dev")
    print(json.dumps(r, indent=1))
    if r["outcome"] in ("REPRODUCED", "HANG"):
        print(f"VIOLATION property={prop} replay={path}")
        return 1
    return 0


if __name__ == "__main__":
    sys.exit(main())
