"""The table MANIFEST.json is generated from (bin/gen_manifest).  One entry per claimed property;
everything else must be in NOT_APPLICABLE with its reason."""

SETUP_CMD = "bin/setup"

HOOKS = {
    "guard": "none (no source hooks: every check transplants the functions it encodes from /repo's working tree into generated crates under /verif/build, or translates their text to SMT-LIB)",
    "enable": "not needed: `bin/check <ID>` re-reads /repo's working tree on every run",
    "baseline_off_cmd": "cd /repo && cargo nextest run --workspace --no-fail-fast --test-threads 8 --offline || cargo test --workspace --no-fail-fast --offline",
    "source_commits": [],
    "add_only": True,
}

ENGINES = [
    {"name": "kani-transplant", "path": "lib/vf/kani.py",
     "kind_free_text": "functions are copied verbatim from /repo's working tree into a generated crate (only listed environment substitutions applied), compiled by Kani 0.68 and decided by CBMC 6.11/CaDiCaL over symbolic inputs with unwinding assertions on; counterexamples are replayed natively (dev + release) before being reported"},
    {"name": "rs2smt", "path": "lib/vf/rs2smt.py",
     "kind_free_text": "functions are parsed from /repo's working tree and symbolically executed into SMT-LIB2 (strings, integers); obligations discharged by z3 and cvc5, which must agree; counterexample models are replayed against the real function natively"},
]

LEVEL_NOTE = ("Bounded: holds for every input within the stated bounds (see evidence.coverage.bounds), nothing is claimed outside them. "
              "Trusted: rustc+Kani MIR->goto translation, CBMC/CaDiCaL, z3/cvc5, the listed container/environment models and substitutions.")

CLAIMS = {}
NOT_APPLICABLE = {}

CLAIMS["C21"] = dict(
    engine="kani-transplant",
    technique="bounded symbolic execution of the real mask.rs / expression.rs code with Kani+CBMC (container models), SAT verdict over all inputs in bound",
    text=("Decides, for all symbolic inputs within the bounds, that the real RowIdMask code (selected, !, &, |, normalize, also_allow/also_block, "
          "max_len, iter_ids, selected_indices) behaves as set algebra over allow/block lists, that the real RowIdTreeMap refines a mathematical set "
          "of u64 (insert, insert_range with every bound kind incl. empty ranges and 32-bit boundaries, full-fragment markers, |=, &=, -=, len, "
          "serialisation framing), and that the NOT/AND/OR combination table of ScalarIndexExpr::evaluate keeps exact/at-most/at-least guarantees. "
          "A bounded SAT verdict over the repository's own function bodies is the right level: the property is pure set/integer algebra whose "
          "faults hide in rare list shapes and boundaries that sampling misses (three real defects were found and fixed this way)."),
    note="RowIdTreeMap is checked against a heap-free BTreeMap model (<=3 fragments) and an interval-set RoaringBitmap model (<=3 intervals, whole u32 domain); RowIdMask against a set model of RowIdTreeMap.",
)

CLAIMS["C37"] = dict(
    engine="kani-transplant",
    technique="bounded symbolic execution of feature_flags.rs and version.rs with Kani+CBMC (all u64 flag words, all version variants / number pairs / short ASCII strings)",
    text=("Decides for every u64 flag word that readers and writers refuse exactly the words carrying a bit outside the known flags, that the known "
          "flags tile the bits below FLAG_UNKNOWN, that apply_feature_flags sets each flag iff its condition holds on an arbitrary manifest shape "
          "(<=3 fragments) and rejects mixed row-id presence, that LanceFileVersion names, numbers and aliases convert consistently, and that a manifest "
          "passing check_storage_version has data files of exactly its storage version (<=2 fragments x <=2 files, arbitrary version numbers). "
          "All-inputs SAT verdicts fit because the code is pure bit/enum logic."),
    note="Manifest is a structural model of the fields feature_flags.rs reads; to_lowercase is modelled on ASCII.",
)

CLAIMS["C15"] = dict(
    engine="kani-transplant",
    technique="bounded symbolic execution of deletion.rs / address.rs with Kani+CBMC (symbolic deletion sets over the whole u32 domain, symbolic offsets)",
    text=("Decides the kernels random access rests on: RowAddress packing/unpacking and ordering for all (u32,u32); DeletionVector membership, "
          "cardinality and range queries against its contents; and OffsetMapper::map_offset -- for every deletion set of <=2 intervals and every "
          "valid non-decreasing pair of logical offsets the result is the offset-th live row, is not deleted, and the binary search terminates. "
          "take/take_rows themselves (async I/O over Arrow) are outside; the claim is restricted to these kernels."),
    note="HashSet and RoaringBitmap are models (sorted array, <=3 intervals). map_offset: fragments of < 2^6 rows (one lookup) and < 2^4 (two lookups) in the quick tier, 2^8 / 2^6 in the thorough tier; the full 2^32 query does not finish.",
)

CLAIMS["C20"] = dict(
    engine="kani-transplant",
    technique="bounded symbolic execution of sbbf.rs (bloom filter blocks) and the zone-map pruning decision with Kani+CBMC over symbolic filter states, hashes and statistics",
    text=("Decides no-false-negatives for the split-block bloom filter as one inductive step from an arbitrary filter state (1..=3 blocks, all u64 "
          "hashes): an inserted hash is found, inserts never clear a hit, block indices are in range for every block count, and the byte form "
          "round-trips; and for the zone map that a zone holding a row that satisfies IsNull/Equals/IsIn/Range is never pruned (see C29). N-gram "
          "tokenisation/posting intersection and hashing of values are outside; the claim is restricted to these kernels."),
    note="Hashing (xxhash), filter sizing (float) and the n-gram index are not encoded.",
)

CLAIMS["C28"] = dict(
    engine="kani-transplant",
    technique="bounded symbolic execution of the FastLanes pack/unpack kernels (macro-generated, one (type,width) pair per query) with Kani+CBMC on 1024 fully symbolic lanes",
    text=("Decides, per (integer type, bit width) pair present in the source, that unpack_T_W(pack_T_W(x))[i] == x[i] & mask(W) for every one of the "
          "2^(1024*T) inputs (all lanes symbolic, symbolic probe index, packed buffer pre-filled with arbitrary data), and that the public dispatcher "
          "maps each width to that kernel with 1024*W/T words. This is a complete verdict per kernel pair -- the input size is fixed at 1024 by the "
          "format. FSST is not encoded (pointer/table code over 64K-entry tables; see not-applicable note in DESIGN.md)."),
    note="Quick tier: 5 representative pairs; thorough: all 120 pairs with W>=1. FSST compress/decompress is outside the claim.",
)

CLAIMS["C34"] = dict(
    engine="kani-transplant",
    technique="bounded symbolic execution of rowids/{bitmap,encoded_array,segment}.rs with Kani+CBMC over symbolic id lists, bitmaps and probes",
    text=("Decides that the leaf encodings of a row id sequence are faithful: EncodedU64Array (whichever of U16/U32/U64 it picks) agrees with the "
          "list on len/get/first/last/min/max/iter/slice and its binary_search is a correct search at every width boundary; Bitmap and BitmapSlice "
          "counting agrees with bit-by-bit counting; U64Segment Range / RangeWithHoles / RangeWithBitmap / SortedArray / Array answer len, "
          "contains, position, get and range like the expanded list. RowIdSequence-level delete/mask/slice/rechunk and RowIdIndex are outside."),
    note="Vec is a fixed-capacity contiguous model (<=4 elements); lists of <=3 ids, bitmaps of <=32 bits.",
)

CLAIMS["C35"] = dict(
    engine="kani-transplant",
    technique="bounded symbolic execution of the hamming and argmin kernels of lance-linalg with Kani+CBMC (all byte vectors up to 72 bytes; all f32 bit patterns in arrays up to 4)",
    text=("Decides that hamming() (64-byte chunked path) equals hamming_scalar() and the bit-count definition for every pair of byte vectors of the lengths "
          "0, 1, 2, 63, 64, 65 (tail only / one whole chunk / chunk + tail; 127-129 are in the thorough tier but do not finish), and that argmin / argmin_value(_float/_opt/_with_bias) / argmax return a first minimal (maximal) element for every f32 bit "
          "pattern including NaN, signed zeros and infinities. The floating-point accumulation kernels (l2, cosine, dot, norms, SIMD and f16 paths) "
          "are NOT covered: 'equal within tolerance' of re-ordered float sums is out of reach for CBMC; the claim is restricted to the kernels named."),
    note="Only comparisons and one float addition per element are involved; no float accumulation.",
)

CLAIMS["C30"] = dict(
    engine="kani-transplant",
    technique="bounded symbolic execution of the range planning and reassembly code of FileScheduler::submit_request (lifted into a synchronous function) with Kani+CBMC over symbolic range lists, block sizes and request-size limits",
    text=("Decides the data half of the property: for every list of <=1 (quick) / <=2 and <=3 (thorough) requested byte ranges -- empty, overlapping, "
          "contained, adjacent or far apart, sorted by start as callers guarantee -- every block size and every maximum request size, the coalesce / split "
          "/ un-coalesce / un-split code returns exactly one buffer per requested range, in order, holding exactly that range of the file. The awaited reads "
          "are replaced by a fetch that returns each planned range of an abstract file. Two real defects (empty ranges; overlap after a split read) were found "
          "this way and fixed. The liveness half (every request completes under any completion order, back-pressure, cancellation) is concurrency over tokio "
          "and is NOT claimed."),
    note="Offsets < 2^16 (quick, one range), 2^8/2^16 (two ranges) and 2^32 (three ranges) in the thorough tier; Vec and Bytes are models.",
)

CLAIMS["C33"] = dict(
    engine="kani-transplant",
    technique="bounded symbolic execution of ManifestNamingScheme (manifest_path, parse_version, detect_scheme, detect_scheme_staging), is_detached_version and the latest-version loop body of current_manifest_local with Kani+CBMC over all u64 versions",
    text=("Decides for every u64 version and both naming schemes that the manifest file name parses back to the version and identifies its scheme, that detached "
          "versions carry the 'd' prefix, are never parsed as attached versions and are detected as V2, that V2 names have fixed width and sort in reverse "
          "version order (all versions < 2^20; the query over all attached versions exists in the thorough tier but does not finish), and -- as one inductive step from an arbitrary accumulator -- that the "
          "latest-version directory scan ignores temporary files, rejects mixed schemes and keeps the maximum version. Listing order of real object stores "
          "and the renames of migrate_scheme_to_v2 are I/O and outside."),
    note="format!, str::parse::<u64>, split_once, starts_with/ends_with are environment models on ASCII strings (core::fmt and core's string searchers are out of reach for CBMC); decimal expansion uniqueness is used as a lemma (registered digits).",
)

CLAIMS["C41"] = dict(
    engine="kani-transplant",
    technique="bounded symbolic execution of the chunker state machines (BreakStreamState, BatchReaderChunker, StrictBatchSizeStream::poll_next, lifted to synchronous code) with Kani+CBMC over symbolic batch lengths and chunk sizes",
    text=("Decides for <=3 input batches of arbitrary lengths and every chunk size that the stream re-chunkers deliver every input row exactly once and in order: "
          "break_stream pieces concatenate to the batch and never cross a multiple of max_rows; chunk_stream chunks have exactly the requested size until the "
          "input is exhausted; StrictBatchSizeStream outputs exactly batch_size rows except a final shorter batch; no empty outputs. The replay spill (files, "
          "watch channels) is I/O and concurrency and is NOT claimed."),
    note="RecordBatch is modelled by the run of abstract input rows it holds; the inner stream is an always-ready iterator (no Pending interleavings).",
)

CLAIMS["C26"] = dict(
    engine="kani-transplant",
    technique="bounded symbolic execution of the integer codec leaf kernels (byte-aligned packing; FastLanes bit-packing kernels, see C28) with Kani+CBMC",
    text=("Decides losslessness for the integer leaf codecs that are pure bit/byte arithmetic: BytepackedIntegerEncoder/ByteUnpacker round-trip for every "
          "max_value and values (every byte width and width boundary) and the FastLanes bit-packing kernels used by the bit-packing encodings (all 1024 lanes "
          "symbolic, per (type,width) pair; shared with C28), and that the byte-stream-split chunk size respects the documented mini-block limits. RLE, the byte-stream-split transposition, dictionary, FSST, packed-struct, general (LZ4/ZSTD) compression and the "
          "mini-block chunking limits sit on LanceBuffer/Arrow/bytemuck/C libraries and are NOT claimed."),
    note="Claim restricted to the named kernels.",
)

CLAIMS["C29"] = dict(
    engine="kani-transplant",
    technique="bounded symbolic execution of ZoneMapIndex::evaluate_zone_against_query with Kani+CBMC over symbolic zone statistics, row values and queries (Int32, UInt64, Float32, Float64; all bit patterns)",
    text=("Decides that the zone-map pruning decision is conservative: for an arbitrary row value v of a zone (NULL, NaN, +-0, +-inf included), arbitrary "
          "statistics satisfying what the builder computes for a zone containing v (null/nan counts, min <= v <= max in ScalarValue order) and an arbitrary "
          "IsNull / Equals / IsIn(<=2) / Range(any bound kinds) query: if v satisfies the query, the zone is kept. The legacy page-statistics pruning "
          "(pushdown_scan.rs, DataFusion PruningPredicate) and statistics collection (Arrow kernels) are NOT claimed."),
    note="ScalarValue and SargableQuery are models (ordering as in datafusion-common 50). NaNs are canonical quiet NaNs (payload/sign variants outside, see DESIGN.md).",
)

CLAIMS["C19"] = dict(
    engine="kani-transplant",
    technique="bounded symbolic execution of the index-result combination code (ScalarIndexExpr::evaluate tables, RowIdMask !,&,|) with Kani+CBMC",
    text=("Decides only the layer of the property in which leaf answers are combined: NOT / AND / OR over exact, at-most and at-least results keep their guarantees "
          "and the RowIdMask complement/intersection/union they use is exact set algebra (this is where `NOT (a AND b)` over two indexed columns went wrong "
          "before the RowIdMask fixes). The leaf searches (B-tree, bitmap, label-list), NULL handling inside them, remap and update are Arrow/IO code and "
          "NOT claimed; the check is therefore a necessary condition for C19, shared with C21."),
    note="Same harnesses as C21 (units idxres, mask_l2).",
)

CLAIMS["C32"] = dict(
    engine="kani-transplant",
    technique="bounded symbolic execution of the hand-written binary framings (IndexExprResult discriminant/from_parts, Sbbf bytes) with Kani+CBMC",
    text=("Decides round trips of the metadata lance frames by hand rather than through prost: the RowIdTreeMap byte framing (count, per fragment id / bitmap "
          "size / bitmap, size 0 = full fragment: deserialize(serialize(m)) = m, serialized_size exact, truncated input rejected), "
          "IndexExprResult::discriminant/from_parts (unknown discriminants rejected) and the split-block bloom filter's byte layout. Protobuf conversions of manifests, transactions, index "
          "metadata, row-id sequences and tag/branch JSON go through prost/serde over heap types and are NOT claimed."),
    note="Restricted to the named framings.",
)

CLAIMS["C17"] = dict(
    engine="kani-transplant",
    technique="bounded symbolic execution of the per-row version run list (RowDatasetVersionSequence, VersionsIter) with Kani+CBMC over symbolic runs, versions and mask positions",
    text=("Decides that the run-length list that stores created-at / last-updated versions behaves like the expanded per-row list: len, is_empty, version_at, "
          "from_uniform_row_count, the versions() iterator (exactly len() items, i-th = version_at(i)) and mask() (remaining rows keep their versions in order, "
          "emptied runs dropped), for <=3 runs of arbitrary versions. Which version build_manifest assigns on append/update/compaction and the delta queries "
          "(DataFusion filters over scans) are NOT claimed; the claim is restricted to this kernel."),
    note="The span of a run is a length-only model of U64Segment (decided under C34). Invariant assumed for versions(): runs are non-empty.",
)

CLAIMS["C27"] = dict(
    engine="kani-transplant",
    technique="bounded symbolic execution of the repetition/definition control-word writer and parser (ControlWordIterator family, build_control_word_iterator, ControlWordParser, log_2_ceil) with Kani+CBMC over symbolic levels and maxima",
    text=("Decides that control words carry repetition/definition levels losslessly for every shape (rep+def, rep only, def only, none) and every maximum "
          "level <= 4095 (1-, 2- and 4-byte words): the writer's width equals the parser's, parsed levels equal the written ones, the row/visibility/validity "
          "description the writer returns is the one the reader re-derives, log_2_ceil is the bit length for all u32, and the iterator ends with None (a "
          "real panic at that point was found and fixed). Converting Arrow validity/offset buffers to levels and back (RepDefBuilder/Unraveler) and the "
          "mini-block repetition index are NOT claimed."),
    note="Restricted to the control-word layer; levels <= 4095.",
)

CLAIMS["C04"] = dict(
    engine="kani-transplant",
    technique="bounded symbolic execution of the delete/update conflict rules (TransactionRebase::check_txn, check_delete_txn, check_update_txn) with Kani+CBMC over symbolic fragment sets and operation kinds",
    text=("Decides the fragment-level half of 'no lost updates', which is a necessary condition for the property: a Delete or Update transaction that is rebased "
          "over a committed Delete/Update touching a common fragment is either rejected with a retryable conflict, or -- only when row-level information exists, "
          "the committed side left the data files alone and did not remove the fragment -- accepted with every common fragment whose deletion file changed marked "
          "for the row-level rewrite; disjoint fragment sets pass; Merge is a retryable and Overwrite an incompatible conflict (quick); every other operation kind "
          "incl. Rewrite / DataReplacement of a modified fragment and MemWAL merges (thorough). The row-level intersection itself (finish_delete_update: deletion "
          "file I/O + RowIdTreeMap & and |) is async I/O; its set operations are decided under C21. That commit_transaction applies these rules to every "
          "concurrent transaction is orchestration and NOT claimed."),
    note="Transaction / Operation / Fragment are structural models with the variant list cross-checked against the source; <=1 updated and <=1 removed fragment per side.",
)

CLAIMS["C39"] = dict(
    engine="kani-transplant",
    technique="bounded symbolic execution of the MemWAL conflict rules (TransactionRebase::check_update_mem_wal_state_txn and its same-MemWAL helper, via check_txn) with Kani+CBMC over symbolic MemWAL ids and operation kinds",
    text=("Decides the last clause of the property as one commit step: an UpdateMemWalState transaction rebased over a committed one is rejected as incompatible "
          "exactly when both add or update the same MemWAL (<=1 added and <=1 updated per side), trims and changes to different MemWALs pass, and every data-changing "
          "operation committed in between is incompatible. The per-region generation numbering and forward-only state transitions live in "
          "update_mem_wal_index_in_indices_list / mem_wal.rs (index metadata, protobuf details) and are NOT claimed; nor is it claimed that commit_transaction applies "
          "the rule to every concurrent transaction."),
    note="MemWal is modelled by its id; same structural models as C04.",
)

_IO = "truth lives in async object-store/tokio orchestration (crash points, interleavings, listings); Kani/CBMC has no model of tokio or object_store and no pure kernel implies the statement"
NOT_APPLICABLE.update({
    "C01": "commit atomicity over crash points: " + _IO,
    "C02": "one winner per version slot is a schedule property over PutMode::Create / rename / lock handlers: " + _IO,
    "C03": "serializability compares final table contents with a serial replay through build_manifest + deletion-file I/O + scans (async, Arrow); the fragment-level conflict rules of delete/update are decided under C04 and the MemWAL rules under C39, but the module's documented compatibility matrix is not a usable oracle for the remaining rules (it disagrees with the code on e.g. Append after Merge)",
    "C05": "manifest well-formedness over arbitrary histories is produced by build_manifest (~1000 lines over Vec<Fragment>, Schema, HashMap, I/O results); no separable pure kernel",
    "C06": "time-travel immutability is a history property of object-store contents: " + _IO,
    "C07": "restore/row-id uniqueness threads next_row_id through build_manifest and manifests read back from storage: " + _IO,
    "C08": "cleanup safety is async directory listing + HashSet<Path> bookkeeping keyed by strings produced by I/O: " + _IO,
    "C10": "external manifest store protocol: interleavings and crash points of an async protocol over two stores: " + _IO,
    "C11": "whole write/read pipeline through Arrow, encoders, file writer, scanner; not a bounded kernel",
    "C12": "SQL semantics of delete/update/merge_insert are DataFusion expression evaluation and hash joins over Arrow batches",
    "C13": "compaction is async file rewriting; remap bookkeeping is HashMap<u64,Option<u64>> filled from I/O",
    "C14": "schema evolution rewrites files and manipulates Schema trees (Vec<Field> recursion, HashMap metadata) around I/O",
    "C16": "scanner vs reference query is DataFusion planning and execution",
    "C18": "stable row id assignment is driven by manifests and inline protobuf blobs inside build_manifest; the pure data structure part is claimed under C34",
    "C22": "vector search exactness is floating-point top-k over Arrow batches, IVF partitions and async execution; CBMC float reasoning does not scale to it",
    "C23": "full-text search goes through tantivy tokenisers, posting lists and WAND over compressed blocks",
    "C24": "index coverage bookkeeping lives in check_create_index_txn / build_manifest over IndexMetadata (RoaringBitmap fragment bitmaps, field lists, Uuid) and prune_updated_fields_from_indices; the Rewrite arm's nested iterator chain did not finish under CBMC in the delete/update probe and the rest is manifest construction around I/O",
    "C25": "the whole encoder/decoder stack with async scheduling; its integer leaf kernels are claimed under C26-C28",
    "C31": "ObjectWriter::poll_write is a hand-written AsyncWrite state machine over object_store multipart futures and a JoinSet; buffering arithmetic is not separable from polling",
    "C38": "cache transparency is a history property over moka caches, Arc<dyn Any> and I/O",
    "C40": "Arrow helpers take and return ArrayRef/RecordBatch (Arc<dyn Array>, buffers, downcast dispatch); JSONB parsing is in the jsonb crate; CBMC cannot carry arrow-rs arrays",
    "C42": "relocatability is a statement about every path written by every writer being relative; decided by I/O",
})
NOT_APPLICABLE.update({
    "C09": "isolation of branches/tags/clones is a storage-layout property decided by I/O; the only pure kernel, the name grammar (check_valid_branch/check_valid_tag), is a sequence of core::str searches (starts_with/contains/split/chars().all) that CBMC cannot carry: every call would have to be replaced by a model, leaving only the order of the checks as real code -- not built, not claimed",
    "C36": "catalog behaviour is Lance-table I/O; the object-id helpers (build/parse/split/str_object_id) are String/Vec<String>/join/split code in which every call would have to be modelled -- not built, not claimed",
    "C43": "schema/projection algebra is recursion over Vec<Field> with HashMap metadata and Arrow conversions; the column-path tokenizer (parse_field_path) runs on String/chars().peekable()/format!, out of reach for CBMC without replacing every call -- not built, not claimed",
})
