"""Kani engine: generate a harness crate from /repo's working tree, decide each harness with
CBMC, replay counterexamples natively."""
import json
import os
import re
import shutil
import subprocess
import time

from .extract import Inconclusive

VERIF = os.environ.get("VERIF_ROOT") or os.path.abspath(os.path.join(os.path.dirname(os.path.abspath(__file__)), "..", ".."))
BUILD = os.path.join(VERIF, "build")
KANI_MEM_KB = int(os.environ.get("VERIF_KANI_MEM_KB", str(24 * 1024 * 1024)))

ENV = dict(os.environ)
ENV["CARGO_NET_OFFLINE"] = "true"
ENV.setdefault("CARGO_TERM_COLOR", "never")


HARNESS_RE = re.compile(r"^//\s*@harness\s+(?P<meta>[^\n]*)\n(?:\s*(?://|#\[)[^\n]*\n)*\s*(?:vnd::)?harness!\(\s*(?P<name>\w+)\s*,", re.M)


def parse_harness_meta(text):
    """`// @harness props=C21,C32 tier=quick timeout=300 [cfg=verif_k6] desc="..."` above harness!()"""
    out = []
    for m in HARNESS_RE.finditer(text):
        meta = {"name": m.group("name"), "tier": "quick", "timeout": 300, "props": [], "desc": "", "cfg": []}
        s = m.group("meta")
        d = re.search(r'desc="([^"]*)"', s)
        if d:
            meta["desc"] = d.group(1)
            s = s.replace(d.group(0), "")
        for tok in s.split():
            if "=" not in tok:
                continue
            k, v = tok.split("=", 1)
            if k == "props":
                meta["props"] = v.split(",")
            elif k == "timeout":
                meta["timeout"] = int(v)
            elif k == "cfg":
                meta["cfg"] = v.split(",")
            elif k == "need_cover":
                meta["need_cover"] = v not in ("0", "false", "no")
            elif k == "quick_for":
                meta["quick_for"] = v.split(",")
            else:
                meta[k] = v
        out.append(meta)
    names = re.findall(r"harness!\(\s*(\w+)\s*,", text)
    missing = set(names) - {h["name"] for h in out}
    if missing:
        raise Inconclusive(f"harnesses without @harness metadata: {sorted(missing)}")
    return out


def write_if_changed(path, content):
    os.makedirs(os.path.dirname(path), exist_ok=True)
    try:
        with open(path, encoding="utf-8") as f:
            if f.read() == content:
                return
    except OSError:
        pass
    with open(path, "w", encoding="utf-8") as f:
        f.write(content)


def generate_crate(unit, files, metas):
    """Write the generated crate for `unit` under build/k/<unit>; returns its directory."""
    d = os.path.join(BUILD, "k", unit["name"])
    src = os.path.join(d, "src")
    # remove stale sources (keep nothing but what we write now)
    if os.path.isdir(src):
        shutil.rmtree(src)
    for rel, content in files.items():
        write_if_changed(os.path.join(d, rel), content)
    crate = "vk_" + unit["name"]
    def arm(m):
        cfg = ""
        if m.get("cfg"):
            cfg = "#[cfg(all(" + ", ".join(m["cfg"]) + "))] "
        return f'        {cfg}"{m["name"]}" => {crate}::harness::{m["name"]}(),'
    arms = "\n".join(arm(m) for m in metas)
    replay = f"""fn main() {{
    let name = std::env::args().nth(1).expect("harness name");
    match name.as_str() {{
{arms}
        _ => {{ println!("REPLAY-NO-SUCH-HARNESS"); std::process::exit(6); }}
    }}
    println!("REPLAY-COMPLETED");
}}
"""
    write_if_changed(os.path.join(d, "src/bin/replay.rs"), replay)
    deps = unit.get("deps", "").replace("/verif/", VERIF + "/")
    cargo = f"""[package]
name = "{crate}"
version = "0.1.0"
edition = "2021"

[lib]
path = "src/lib.rs"

[[bin]]
name = "replay"
path = "src/bin/replay.rs"

[dependencies]
vnd = {{ path = "{VERIF}/models/vnd" }}
{deps}

[workspace]

[lints.rust]
unexpected_cfgs = {{ level = "allow" }}

[profile.dev]
debug = false
[profile.release]
overflow-checks = false
"""
    write_if_changed(os.path.join(d, "Cargo.toml"), cargo)
    lock = unit.get("lockfile")
    if lock:
        shutil.copyfile(lock, os.path.join(d, "Cargo.lock"))
    return d


CHECK_RE = re.compile(r"^Check \d+: (?P<id>\S+)\n\s+- Status: (?P<status>\w+)\n\s+- Description: \"(?P<desc>.*?)\"\n(?:\s+- Location: (?P<loc>[^\n]*)\n)?", re.M | re.S)


def parse_kani_output(out):
    r = {"verdict": None, "failed": [], "covers": [], "n_checks": 0, "vars": None, "clauses": None,
         "solver_s": None, "verif_time_s": None, "stubs": []}
    if "VERIFICATION:- SUCCESSFUL" in out:
        r["verdict"] = "SUCCESSFUL"
    elif "VERIFICATION:- FAILED" in out:
        r["verdict"] = "FAILED"
    for m in CHECK_RE.finditer(out):
        r["n_checks"] += 1
        cid, st, desc = m.group("id"), m.group("status"), " ".join(m.group("desc").split())
        if ".cover." in cid:
            r["covers"].append({"id": cid, "status": st, "desc": desc})
        elif st == "FAILURE" and desc.startswith("NaN on "):
            # CBMC's --nan-check (on by default in Kani) flags float operations that yield NaN; that is IEEE
            # behaviour, not a Rust panic, and not something any property here forbids
            r["nan_flags"] = r.get("nan_flags", 0) + 1
        elif st == "FAILURE":
            r["failed"].append({"id": cid, "status": st, "desc": desc, "loc": m.group("loc") or ""})
        elif st not in ("SUCCESS", "UNREACHABLE"):
            r["errors"] = r.get("errors", 0) + 1
    if r["verdict"] == "FAILED" and not r["failed"]:
        for fm in re.finditer(r"^Failed Checks: (.*?)\n File: \"([^\"]*)\", line (\d+), in (\S+)", out, re.M | re.S):
            d = " ".join(fm.group(1).split())
            if d.startswith("NaN on "):
                continue
            r["failed"].append({"id": "summary", "status": "FAILURE", "desc": d, "loc": f"{fm.group(2)}:{fm.group(3)} in function {fm.group(4)}"})
    m = re.search(r"(\d+) variables, (\d+) clauses", out)
    if m:
        r["vars"], r["clauses"] = int(m.group(1)), int(m.group(2))
    ts = re.findall(r"Runtime Solver: ([\d.eE+-]+)s", out)
    if ts:
        r["solver_s"] = round(sum(float(t) for t in ts), 3)
    m = re.search(r"Verification Time: ([\d.]+)s", out)
    if m:
        r["verif_time_s"] = float(m.group(1))
    r["stubs"] = re.findall(r"- Stub: ([^\n]+)", out)
    return r


def run_group(argv, cwd, env, timeout):
    """Run argv in its own process group with stdout+stderr to a temp file; on timeout kill the
    whole group (cargo-kani -> kani-driver -> cbmc).  Returns (output, returncode, timed_out)."""
    import signal
    import tempfile
    with tempfile.TemporaryFile(mode="w+b") as tf:
        p = subprocess.Popen(argv, cwd=cwd, env=env, stdout=tf, stderr=subprocess.STDOUT, start_new_session=True)
        timed_out = False
        try:
            rc = p.wait(timeout=timeout)
        except subprocess.TimeoutExpired:
            timed_out = True
            try:
                os.killpg(p.pid, signal.SIGKILL)
            except ProcessLookupError:
                pass
            p.wait()
            rc = -1
        tf.seek(0)
        out = tf.read().decode("utf-8", "replace")
    return out, rc, timed_out


def run_kani(crate_dir, unit, h, log_dir, playback=False):
    """Run one harness.  Returns dict(status=PASS|FAIL|VACUOUS|TIMEOUT|ERROR, ...)."""
    name = h["name"]
    tdir = os.path.join(BUILD, "t", unit["name"], name)
    os.makedirs(tdir, exist_ok=True)
    os.makedirs(log_dir, exist_ok=True)
    args = ["cargo", "kani", "--harness", "harness::" + name, "--exact", "--target-dir", tdir]
    zflags = set(unit.get("zflags", []))
    if playback:
        zflags.add("concrete-playback")
        args += ["--concrete-playback=print"]
    for z in sorted(zflags):
        args += ["-Z", z]
    if not unit.get("reach_checks", False):
        # Kani's per-assertion reachability checks make CBMC build one trace per check: measured 376 s -> 21 s
        # on a bit-packing kernel without them.  Vacuity is guarded by the kani::cover! witnesses instead.
        args += ["--no-assertion-reach-checks"]
    args += unit.get("kani_args", [])
    args += h.get("kani_args", [])
    env = dict(ENV)
    rf = env.get("RUSTFLAGS", "")
    cfgs = list(unit.get("cfg", [])) + list(h.get("cfg", []))
    if playback:
        # Kani prints one playback test per harness run and prefers satisfied covers: switch the covers off
        cfgs.append("verif_nocover")
    for c in cfgs:
        rf += f" --cfg {c}"
    if rf:
        env["RUSTFLAGS"] = rf.strip()
    timeout = int(h.get("timeout", 300) * float(os.environ.get("VERIF_TIMEOUT_SCALE", "1")))
    cmd = f"ulimit -v {KANI_MEM_KB}; exec " + " ".join(args)
    t0 = time.time()
    log_path = os.path.join(log_dir, f"{unit['name']}.{name}{'.playback' if playback else ''}.log")
    out, rc, timed_out = run_group(["bash", "-c", cmd], crate_dir, env, timeout)
    wall = time.time() - t0
    out = "\n".join(l for l in out.splitlines() if not l.startswith(("Not unwinding", "Unwinding loop", "Unwinding recursion")))
    with open(log_path, "w") as f:
        f.write(out)
    res = parse_kani_output(out)
    res.update({"harness": name, "unit": unit["name"], "wall_s": round(wall, 2), "log": log_path, "rc": rc})
    if timed_out:
        res["status"] = "TIMEOUT"
        res["reason"] = f"no verdict within {timeout}s"
    elif res["verdict"] == "SUCCESSFUL":
        bad_cov = [c for c in res["covers"] if c["status"] != "SATISFIED"]
        if bad_cov:
            res["status"] = "VACUOUS"
            res["reason"] = "cover not satisfiable: " + "; ".join(c["desc"] for c in bad_cov)
        elif h.get("need_cover", True) and not res["covers"]:
            res["status"] = "VACUOUS"
            res["reason"] = "harness has no reachability witness (kani::cover!)"
        else:
            res["status"] = "PASS"
    elif res["verdict"] == "FAILED" and not res["failed"] and not res.get("errors") and res.get("nan_flags") and "CBMC failed" not in out and "out of memory" not in out.lower():
        res["status"] = "PASS"
        res["note"] = f"only CBMC NaN-propagation flags failed ({res['nan_flags']}); ignored"
        bad_cov = [c for c in res["covers"] if c["status"] != "SATISFIED"]
        if bad_cov:
            res["status"] = "VACUOUS"
            res["reason"] = "cover not satisfiable: " + "; ".join(c["desc"] for c in bad_cov)
    elif res["verdict"] == "FAILED" and res["failed"]:
        res["status"] = "FAIL"
    elif res["verdict"] == "FAILED":
        res["status"] = "ERROR"
        res["reason"] = f"CBMC gave no verdict ({res.get('errors', 0)} checks with status ERROR/UNDETERMINED: solver ran out of memory or failed)"
    else:
        res["status"] = "ERROR"
        tail = out.strip().splitlines()[-15:]
        res["reason"] = "no verdict (build or tool failure): " + " | ".join(tail)[-1500:]
    if playback:
        res["playback_values"] = parse_playback(out)
    return res


def parse_playback(out):
    """Extract the concrete byte vectors of the first generated playback test that is for a failing
    check (Kani also prints one test per satisfied cover property)."""
    blocks = out.split("Concrete playback unit test for")
    chosen = None
    for b in blocks[1:]:
        m = re.search(r"/// Check for `(\w+)`", b)
        if m and m.group(1) == "cover":
            continue
        chosen = b
        break
    if chosen is None:
        return None
    m = re.search(r"let concrete_vals: Vec<Vec<u8>> = vec!\[(.*?)\n\s*\];", chosen, re.S)
    if not m:
        return None
    vals = []
    for line in m.group(1).splitlines():
        line = line.strip()
        mm = re.match(r"vec!\[([\d,\s]*)\],?$", line)
        if mm:
            vals.append([int(x) for x in mm.group(1).replace(" ", "").split(",") if x != ""])
    return vals


def native_replay(crate_dir, unit, h, values, profile="dev", timeout=60, cfgs=()):
    """Build the generated crate with the normal toolchain and run harness `h` on `values`.
    Returns dict(outcome=REPRODUCED|NOT_REPRODUCED|HANG|BUILD_FAILED|ASSUME_FAILED, ...)."""
    name = h["name"]
    tdir = os.path.join(BUILD, "r", unit["name"])
    os.makedirs(tdir, exist_ok=True)
    env = dict(ENV)
    env.pop("RUSTFLAGS", None)
    rf = ""
    for c in list(unit.get("cfg", [])) + list(h.get("cfg", [])) + list(cfgs):
        rf += f" --cfg {c}"
    if rf:
        env["RUSTFLAGS"] = rf.strip()
    toolchain = unit.get("native_toolchain")
    if toolchain:
        env["RUSTUP_TOOLCHAIN"] = toolchain
    args = ["cargo", "build", "--offline", "--bin", "replay", "--target-dir", tdir]
    if profile == "release":
        args.append("--release")
    b = subprocess.run(args, cwd=crate_dir, env=env, capture_output=True, text=True)
    if b.returncode != 0:
        return {"outcome": "BUILD_FAILED", "detail": b.stderr[-2000:], "profile": profile}
    vals_path = os.path.join(tdir, f"{name}.values")
    with open(vals_path, "w") as f:
        for v in values:
            f.write(",".join(str(x) for x in v) + ("\n" if v else "-\n"))
    exe = os.path.join(tdir, "release" if profile == "release" else "debug", "replay")
    env2 = dict(env)
    env2["VERIF_REPLAY_VALUES"] = vals_path
    env2["RUST_BACKTRACE"] = "0"
    try:
        p = subprocess.run([exe, name], env=env2, capture_output=True, text=True, timeout=timeout)
    except subprocess.TimeoutExpired:
        return {"outcome": "HANG", "detail": f"no termination within {timeout}s", "profile": profile}
    out = p.stdout + p.stderr
    if p.returncode == 101 or "panicked at" in out:
        msg = [l for l in out.splitlines() if "panicked at" in l or l.strip()]
        return {"outcome": "REPRODUCED", "detail": "\n".join(msg[:6])[-1500:], "profile": profile}
    if "REPLAY-ASSUME-FAILED" in out:
        return {"outcome": "ASSUME_FAILED", "detail": out[-500:], "profile": profile}
    if "REPLAY-COMPLETED" in out and p.returncode == 0:
        return {"outcome": "NOT_REPRODUCED", "detail": out[-500:], "profile": profile}
    if p.returncode < 0:
        return {"outcome": "REPRODUCED", "detail": f"killed by signal {-p.returncode}: {out[-500:]}", "profile": profile}
    return {"outcome": "NOT_REPRODUCED", "detail": f"rc={p.returncode} {out[-500:]}", "profile": profile}
