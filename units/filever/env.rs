#[derive(Debug, PartialEq)]
pub enum Error {
    InvalidInput,
}
pub type Result<T> = std::result::Result<T, Error>;

pub const MAXS: usize = 6;

pub struct SmallStr {
    buf: [u8; 8],
    len: usize,
}
impl SmallStr {
    pub fn as_str(&self) -> &str {
        // ASCII only by construction
        unsafe { core::str::from_utf8_unchecked(&self.buf[..self.len]) }
    }
}

/// ASCII model of `str::to_lowercase` (inputs longer than 8 bytes are a model bound).
pub fn ascii_lower(s: &str) -> SmallStr {
    let b = s.as_bytes();
    vnd::model_bound(b.len() <= 8);
    let mut buf = [0u8; 8];
    let mut i = 0;
    while i < 8 {
        if i < b.len() {
            vnd::model_bound(b[i] < 128);
            buf[i] = if b[i] >= b'A' && b[i] <= b'Z' { b[i] + 32 } else { b[i] };
        }
        i += 1;
    }
    SmallStr { buf, len: b.len() }
}
