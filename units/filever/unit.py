"""FILEVER: lance-encoding/src/version.rs (LanceFileVersion), whole file."""
import os
import re
from vf import extract as X

V = "rust/lance-encoding/src/version.rs"

UNIT = dict(
    engine="kani-transplant",
    deps="",
    encoded={V: ["enum LanceFileVersion", "resolve", "is_unstable", "try_from_major_minor", "to_numbers",
                 "Display::fmt (its `match self` table, lifted into a fn returning &'static str)", "FromStr::from_str"]},
    models=["lance_core::Error -> unit-like error (format!/location! payloads dropped)",
            "str::to_lowercase -> ASCII lowercase on a fixed 8-byte buffer (inputs are ASCII strings of <=6 bytes)",
            "strum::EnumIter derive and iter_non_legacy removed (iteration helper, not conversion)"],
    bounds={"variants": "all 6", "numbers": "all (u32,u32) pairs", "strings": "all ASCII strings of length <=6", "unwind": 9},
    outside=["non-ASCII version strings", "strings longer than 6 bytes (no accepted name is longer)"],
)

ENV = open(os.path.join(os.path.dirname(__file__), "env.rs")).read()


def build(repo, subs):
    src = X.strip_tests(repo.read(V))
    src = subs.lit(src, "use lance_core::{Error, Result};\nuse snafu::location;\n", "use crate::env::{ascii_lower, Error, Result};\n",
                   why="unit-like Error")
    src = subs.lit(src, ", Ord, PartialOrd, strum::EnumIter)]", ", Ord, PartialOrd)]", why="strum derive only feeds iter_non_legacy")
    src = X.remove_item(src, r"^\s*pub fn iter_non_legacy\b")
    src = subs.rx(src, r"_ => Err\(Error::InvalidInput \{.*?\}\),", "_ => Err(Error::InvalidInput),", count=2,
                  why="error payload (format!/location!) is not part of the semantics", flags=re.S)
    disp = X.extract_item(src, r"^impl std::fmt::Display for LanceFileVersion \{")
    _, tbl = X.extract_block_after(disp, r"fn fmt\b", r"match self \{")
    src = src.replace(disp, "impl LanceFileVersion {\n    /// lifted from `impl Display`: the string `write!(f, \"{}\", ..)` prints\n"
                            "    pub fn verif_display(&self) -> &'static str {\n        match self {" + tbl + "}\n    }\n}\n")
    src = subs.lit(src, "match value.to_lowercase().as_str() {", "match ascii_lower(value).as_str() {", why="ASCII model of to_lowercase")
    lib = ("#![allow(dead_code, unused_imports, unused_variables, unused_mut, non_camel_case_types, clippy::all)]\n"
           "pub mod env;\npub mod version;\npub mod harness;\n")
    return {"src/lib.rs": lib, "src/version.rs": src, "src/env.rs": ENV}
