//! C37 harnesses over version.rs.
use crate::env::MAXS;
use crate::version::*;
use core::str::FromStr;
use vnd::harness;

fn any_version() -> LanceFileVersion {
    let k: u8 = vnd::any();
    vnd::assume(k < 6);
    match k {
        0 => LanceFileVersion::Legacy,
        1 => LanceFileVersion::V2_0,
        2 => LanceFileVersion::Stable,
        3 => LanceFileVersion::V2_1,
        4 => LanceFileVersion::Next,
        _ => LanceFileVersion::V2_2,
    }
}

fn is_alias(v: LanceFileVersion) -> bool {
    v == LanceFileVersion::Stable || v == LanceFileVersion::Next
}

// @harness props=C37 tier=quick timeout=300 desc="numbers <-> versions: try_from_major_minor(to_numbers(v)) = resolve(v); resolve idempotent and never an alias; conversion idempotent on all (u32,u32)"
harness!(numbers_roundtrip, 4, {
    let v = any_version();
    let r = v.resolve();
    assert!(!is_alias(r) && r.resolve() == r);
    assert!(is_alias(v) || r == v);
    let (ma, mi) = v.to_numbers();
    assert!((ma, mi) == r.to_numbers());
    assert!(LanceFileVersion::try_from_major_minor(ma, mi) == Ok(r));
    let (a, b): (u32, u32) = (vnd::any(), vnd::any());
    match LanceFileVersion::try_from_major_minor(a, b) {
        Ok(w) => {
            vnd::cover!(a == 0 && b == 3, "legacy numbering of 2.0");
            assert!(!is_alias(w));
            let (c, d) = w.to_numbers();
            assert!(LanceFileVersion::try_from_major_minor(c, d) == Ok(w));
        }
        Err(_) => {
            vnd::cover!(a == 2 && b == 3, "an unknown 2.x");
            // nothing a version prints as its numbers is rejected
            assert!((a, b) != v.to_numbers());
        }
    }
});

// @harness props=C37 tier=quick timeout=300 desc="names: from_str(display(v)) = v for every variant; names are pairwise distinct; the unstable marker is >= Next"
harness!(names_roundtrip, 9, {
    let v = any_version();
    let w = any_version();
    let s = v.verif_display();
    vnd::cover!(v == LanceFileVersion::Next, "alias next");
    assert!(LanceFileVersion::from_str(s) == Ok(v));
    assert!(v == w || s != w.verif_display());
    assert!(v.is_unstable() == (v == LanceFileVersion::Next || v == LanceFileVersion::V2_2));
    // documented aliases
    assert!(LanceFileVersion::from_str("legacy") == Ok(LanceFileVersion::Legacy));
    assert!(LanceFileVersion::from_str("0.3") == Ok(LanceFileVersion::V2_0));
    assert!(LanceFileVersion::Stable.resolve() == LanceFileVersion::V2_0);
    assert!(LanceFileVersion::Next.resolve() == LanceFileVersion::V2_1);
});

// @harness props=C37 tier=quick timeout=600 desc="every ASCII string of <=6 bytes that parses is (case-insensitively) the printed name of the result or a documented alias of it"
harness!(parse_accepts_only_names, 9, {
    let bytes: [u8; MAXS] = vnd::any();
    let len: usize = vnd::any();
    vnd::assume(len <= MAXS);
    let mut i = 0;
    while i < MAXS {
        vnd::assume(bytes[i] < 128);
        i += 1;
    }
    let s = unsafe { core::str::from_utf8_unchecked(&bytes[..len]) };
    let low = crate::env::ascii_lower(s);
    match LanceFileVersion::from_str(s) {
        Ok(v) => {
            vnd::cover!(bytes[0] == b'S', "upper-case spelling accepted");
            let name_ok = low.as_str() == v.verif_display();
            let alias_ok = (low.as_str() == "legacy" && v == LanceFileVersion::Legacy)
                || (low.as_str() == "0.3" && v == LanceFileVersion::V2_0);
            assert!(name_ok || alias_ok);
        }
        Err(_) => {
            vnd::cover!(len == 3, "a rejected 3-byte string");
            let v = any_version();
            assert!(low.as_str() != v.verif_display());
        }
    }
});
