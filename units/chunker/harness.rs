//! C41 harnesses: every row is delivered exactly once, in order, in chunks of the requested size.
use crate::chunker::*;
use crate::env::{RecordBatch, SendableRecordBatchStream};
use std::task::Poll;
use vnd::harness;

/// Appends `b` to the running output position; true iff `b` continues exactly where the output stopped.
fn continues(pos: &mut u64, b: &RecordBatch) -> bool {
    if b.len == 0 {
        return true;
    }
    let ok = !b.bad && b.off == *pos;
    *pos += b.len;
    ok
}

// @harness props=C41 tier=quick timeout=900 desc="BreakStreamState: from any rows_seen state, the pieces of one batch concatenate to the batch, are non-empty, and no piece crosses a multiple of max_rows; rows_already_seen is updated to the position modulo max_rows"
harness!(break_stream_pieces, 6, {
    let max = vnd::any::<u16>() as usize;
    vnd::assume(max >= 1);
    let mut seen = vnd::any::<u16>() as usize;
    vnd::assume(seen < max);
    let seen0 = seen;
    let len = vnd::any::<u16>() as u64;
    // bound: the batch is cut at most 3 times
    vnd::assume((seen0 as u64 + len) <= 4 * max as u64);
    let batch = RecordBatch { off: 100, len, bad: false };
    let mut state = break_stream_batch(batch, max, &mut seen);
    assert!(seen == (seen0 + len as usize) % max);
    let mut pos = 100u64;
    let mut at = seen0 as u64; // position within the current max_rows window
    let mut pieces = 0;
    let mut k = 0;
    while k < 5 {
        match state.next() {
            Some((Ok(piece), st)) => {
                assert!(piece.len > 0);
                assert!(continues(&mut pos, &piece));
                assert!(at + piece.len <= max as u64);
                at = (at + piece.len) % max as u64;
                pieces += 1;
                state = st;
            }
            Some((Err(_), _)) => {
                assert!(false);
                break;
            }
            None => break,
        }
        k += 1;
    }
    vnd::cover!(pieces == 3, "a batch broken into three pieces");
    assert!(pos == 100 + len);
});

// @harness props=C41 tier=quick timeout=900 desc="chunk_stream (BatchReaderChunker::next): the first two chunks of <=3 input batches: each chunk has exactly output_size rows unless the input is exhausted, pieces are consecutive input rows, nothing is lost or repeated"
harness!(chunker_next_two, 7, {
    let (inner, total) = SendableRecordBatchStream::verif_any();
    let size = vnd::any::<u16>() as usize;
    vnd::assume(size >= 1);
    let mut c = BatchReaderChunker::new(inner, size);
    let mut pos = 0u64;
    let mut round = 0;
    let mut full_chunks = 0;
    while round < 2 {
        match c.next() {
            Some(Ok(batches)) => {
                let mut rows = 0u64;
                for b in batches.iter() {
                    assert!(b.len > 0);
                    assert!(continues(&mut pos, b));
                    rows += b.len;
                }
                assert!(rows == size as u64 || pos == total);
                assert!(rows > 0 && rows <= size as u64);
                if rows == size as u64 {
                    full_chunks += 1;
                }
            }
            Some(Err(_)) => assert!(false),
            None => assert!(pos == total),
        }
        round += 1;
    }
    vnd::cover!(full_chunks == 2 && pos < total, "two full chunks with rows left over");
    assert!(pos <= total);
});

fn strict_case(pendings_allowed: u8, rounds: usize) {
    let (mut inner, total) = SendableRecordBatchStream::verif_any();
    inner.pendings_left = pendings_allowed;
    let size = vnd::any::<u16>() as usize;
    vnd::assume(size >= 1);
    let mut s = StrictBatchSizeStream { inner, batch_size: size, residual: None };
    let mut pos = 0u64;
    let mut done = false;
    let mut outs = 0;
    let mut pendings = 0;
    let mut round = 0;
    while round < rounds {
        if !done {
            match s.poll_next_sync() {
                Poll::Ready(Some(Ok(b))) => {
                    assert!(b.len > 0);
                    assert!(continues(&mut pos, &b));
                    assert!(b.len == size as u64 || pos == total);
                    outs += 1;
                }
                Poll::Ready(Some(Err(_))) => assert!(false),
                Poll::Ready(None) => {
                    assert!(pos == total);
                    done = true;
                }
                Poll::Pending => pendings += 1,
            }
        }
        round += 1;
    }
    vnd::cover!(outs >= 1 && pendings == pendings_allowed as usize, "an output after the allowed number of Pendings");
    assert!(pos <= total);
}

// @harness props=C41 tier=quick timeout=900 desc="StrictBatchSizeStream::poll_next, four polls over <=3 input batches with the inner stream answering Pending at one arbitrary moment: every output has exactly batch_size rows except a final shorter one, outputs are the input rows in order, none empty, nothing is lost across a Pending"
harness!(strict_batch_polls_with_pending, 6, {
    strict_case(1, 4);
});

// @harness props=C41 tier=thorough timeout=3000 desc="same with five polls and up to two Pendings"
harness!(strict_batch_polls_two_pendings, 7, {
    strict_case(2, 5);
});
