"""CHUNKER: the batch re-chunking state machines of lance-datafusion/src/chunker.rs:
BreakStreamState::next (+ the per-batch bookkeeping of break_stream), BatchReaderChunker
(fill_buffer/next) and StrictBatchSizeStream::poll_next, with the inner stream replaced by an
iterator over <=3 batches and RecordBatch by a (row offset, row count) view of an abstract row
sequence."""
import os
import re
from vf import extract as X

F = "rust/lance-datafusion/src/chunker.rs"

UNIT = dict(
    engine="kani-transplant",
    deps='vstd = { path = "/verif/models/vstd" }',
    encoded={F: ["struct BatchReaderChunker + impl (new, buffered_len, fill_buffer, next)", "struct BreakStreamState + impl next",
                 "break_stream: the per-batch closure body (state construction, rows_already_seen update)",
                 "struct StrictBatchSizeStream + Stream::poll_next body"]},
    models=["arrow RecordBatch -> RecordBatchLite: the contiguous run (first row, row count) of an abstract input row sequence it holds, with a sticky `bad` mark if rows that are not consecutive were concatenated; slice() panics out of range like arrow",
            "the inner SendableRecordBatchStream / Stream -> an iterator over <=3 batches; for StrictBatchSizeStream::poll_next it answers Poll::Pending nondeterministically (<=2 times), so every Pending schedule within the bound is covered; in BatchReaderChunker async fn/.await are removed (always ready)",
            "arrow::compute::concat_batches -> concatenation of two RecordBatchLite", "Vec/VecDeque -> vstd::cvec models (capacity 4)",
            "lance_core::Result / DataFusionError -> unit-like errors"],
    bounds={"input": "<=3 input batches of arbitrary lengths < 2^16 each (consecutive rows of one sequence)", "chunk/batch size": "any 1 <= size < 2^16",
            "steps": "chunk_stream: first two output chunks; strict: first three polls; break: all pieces of one batch from an arbitrary rows_seen state"},
    outside=["spill.rs (files, channels)", "errors raised by the inner stream", "chunk_concat_stream (arrow concat kernel)", "Pending schedules of chunk_stream (async fn state is kept by the compiler-generated future)"],
)

ENV = open(os.path.join(os.path.dirname(__file__), "env.rs")).read()


def build(repo, subs):
    src = X.strip_tests(repo.read(F))
    brc_s = X.extract_item(src, r"^struct BatchReaderChunker\b")
    brc_i = X.extract_item(src, r"^impl BatchReaderChunker \{")
    n_async = brc_i.count("async fn ")
    brc_i = subs.lit(brc_i, "async fn ", "pub fn ", count=n_async, why="the inner stream model is always ready: async removed")
    n_await = brc_i.count(".await")
    brc_i = subs.lit(brc_i, ".await", "", count=n_await, why="see above")
    brc_i = subs.lit(brc_i, "fn new(", "pub fn new(", why="visibility")
    brc_i = subs.lit(brc_i, "Some(Err(e)) => return Err(e.into()),", "Some(Err(e)) => return Err(e),", why="unit-like error, no conversion")
    brc_s = subs.lit(brc_s, "struct BatchReaderChunker {", "pub struct BatchReaderChunker {", why="visibility")
    bss_s = X.extract_item(src, r"^struct BreakStreamState\b")
    bss_i = X.extract_item(src, r"^impl BreakStreamState \{")
    bss_s = subs.lit(bss_s, "struct BreakStreamState {", "pub struct BreakStreamState {", why="visibility")
    bss_s = re.sub(r"^    (max_rows|rows_seen|rows_remaining|batch):", r"    pub \1:", bss_s, flags=re.M)
    bss_i = subs.lit(bss_i, "fn next(mut self)", "pub fn next(mut self)", why="visibility")
    bs = X.extract_item(src, r"^pub fn break_stream\b")
    m = re.search(r"\.map_ok\(move \|batch\| \{\n(.*?)\n\s*futures::stream::unfold", bs, re.S)
    if not m:
        raise X.Inconclusive("break_stream closure changed shape")
    closure = m.group(1)
    sbs_s = X.extract_item(src, r"^pub struct StrictBatchSizeStream<S>")
    sbs_s = re.sub(r"^    (inner|batch_size|residual):", r"    pub \1:", sbs_s, flags=re.M)
    st_impl = X.extract_item(src, r"^impl<S> Stream for StrictBatchSizeStream<S>")
    pn = X.extract_item(st_impl, r"^\s*fn poll_next\b")
    body = X.fn_body(pn)
    body = subs.lit(body, "ready!(Pin::new(&mut self.inner).poll_next(cx))",
                    "(match self.inner.poll_model() { Poll::Ready(x) => x, Poll::Pending => return Poll::Pending })",
                    why="ready!(poll_next) spelled out over the inner stream model, which may answer Pending a bounded, nondeterministic number of times")
    body = subs.rx(body, r"arrow::compute::concat_batches\(&residual\.schema\(\), &\[residual, batch\]\)\s*\.map_err\(\|e\| DataFusionError::External\(Box::new\(e\)\)\)\?",
                   "crate::env::concat_batches(&residual.schema(), &[residual, batch])?", why="concat model; error boxing dropped")
    body = subs.lit(body, "Ok::<_, DataFusionError>", "Ok::<_, crate::env::DataFusionError>", why="error model path")
    text = f"""use std::task::Poll;
use vstd::cvec::{{Vec, VecDeque}};
use crate::env::{{RecordBatch, Result, DataFusionError, DataFusionResult, SendableRecordBatchStream}};

{brc_s}

{brc_i}

{bss_s}

{bss_i}

/// the per-batch closure of `break_stream`, lifted verbatim
pub fn break_stream_batch(batch: RecordBatch, max_chunk_size: usize, rows_already_seen_ref: &mut usize) -> BreakStreamState {{
    let mut rows_already_seen = *rows_already_seen_ref;
{closure}
    *rows_already_seen_ref = rows_already_seen;
    state
}}

{sbs_s}

impl StrictBatchSizeStream<SendableRecordBatchStream> {{
    /// body of `Stream::poll_next`, lifted verbatim
    pub fn poll_next_sync(&mut self) -> Poll<Option<DataFusionResult<RecordBatch>>> {{
{body}
    }}
}}
"""
    lib = ("#![allow(dead_code, unused_imports, unused_variables, unused_mut, clippy::all)]\n"
           "pub mod env;\npub mod chunker;\npub mod harness;\n")
    return {"src/lib.rs": lib, "src/chunker.rs": text, "src/env.rs": ENV}
