//! Environment of the chunker state machines.
use vstd::cvec::Vec;

#[derive(Debug)]
pub enum DataFusionError {
    External,
}
#[derive(Debug)]
pub enum Error {
    Inner,
}
impl From<DataFusionError> for Error {
    fn from(_: DataFusionError) -> Self {
        Self::Inner
    }
}
pub type Result<T> = std::result::Result<T, Error>;
pub type DataFusionResult<T> = std::result::Result<T, DataFusionError>;

/// A batch = the consecutive rows `[off, off+len)` of the abstract input row sequence, or `bad`
/// once rows that are not consecutive have been glued together.
#[derive(Clone, Copy, Debug, Default, PartialEq)]
pub struct RecordBatch {
    pub off: u64,
    pub len: u64,
    pub bad: bool,
}
impl RecordBatch {
    pub fn num_rows(&self) -> usize {
        self.len as usize
    }
    pub fn schema(&self) -> () {}
    /// arrow's `RecordBatch::slice` panics when offset + length > num_rows
    pub fn slice(&self, offset: usize, length: usize) -> Self {
        assert!(offset as u64 + length as u64 <= self.len, "slice out of range");
        Self { off: self.off + offset as u64, len: length as u64, bad: self.bad }
    }
}

pub fn concat_batches(_schema: &(), batches: &[RecordBatch; 2]) -> DataFusionResult<RecordBatch> {
    let (a, b) = (batches[0], batches[1]);
    if a.len == 0 {
        return Ok(b);
    }
    if b.len == 0 {
        return Ok(a);
    }
    Ok(RecordBatch { off: a.off, len: a.len + b.len, bad: a.bad || b.bad || a.off + a.len != b.off })
}

/// The inner stream: <= 3 consecutive batches, always ready.
#[derive(Clone, Debug, Default)]
pub struct SendableRecordBatchStream {
    pub items: [RecordBatch; 3],
    pub n: usize,
    pub pos: usize,
    /// how many more times poll_model() may answer Pending
    pub pendings_left: u8,
}
impl SendableRecordBatchStream {
    /// Model-only: n <= 3 batches of arbitrary lengths (< 2^16) that tile rows 0..total
    pub fn verif_any() -> (Self, u64) {
        let n: usize = vnd::any();
        vnd::assume(n <= 3);
        let lens: [u16; 3] = vnd::any();
        let mut items = [RecordBatch::default(); 3];
        let mut off = 0u64;
        let mut i = 0;
        while i < 3 {
            if i < n {
                items[i] = RecordBatch { off, len: lens[i] as u64, bad: false };
                off += lens[i] as u64;
            }
            i += 1;
        }
        (Self { items, n, pos: 0, pendings_left: 0 }, off)
    }
}
/// what `self.inner.next()` resolves to, for both error types the chunker uses
pub trait NextBatch<E> {
    fn next(&mut self) -> Option<std::result::Result<RecordBatch, E>>;
}
impl SendableRecordBatchStream {
    /// `Stream::poll_next`: Ready(next item) or, a bounded number of times, Pending (nondeterministic)
    pub fn poll_model<E>(&mut self) -> std::task::Poll<Option<std::result::Result<RecordBatch, E>>> {
        if self.pendings_left > 0 && vnd::any::<bool>() {
            self.pendings_left -= 1;
            return std::task::Poll::Pending;
        }
        std::task::Poll::Ready(self.next())
    }
    pub fn next<E>(&mut self) -> Option<std::result::Result<RecordBatch, E>> {
        if self.pos < self.n {
            let b = self.items[self.pos];
            self.pos += 1;
            Some(Ok(b))
        } else {
            None
        }
    }
}
