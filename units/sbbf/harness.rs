//! C20 harnesses: a split-block bloom filter never forgets an inserted hash.
use crate::sbbf::{verif_block_index, verif_mask, Sbbf};
use vnd::harness;

fn any_n() -> usize {
    let n: usize = vnd::any();
    vnd::assume(n >= 1 && n <= 3);
    n
}

// @harness props=C20 tier=quick timeout=300 desc="Block::mask sets exactly one bit in each of the 8 words"
harness!(mask_one_bit_per_word, 9, {
    let x: u32 = vnd::any();
    let m = verif_mask(x);
    let i: usize = vnd::any();
    vnd::assume(i < 8);
    vnd::cover!(m[i] == 1 << 31, "top bit");
    assert!(m[i].count_ones() == 1);
});

// @harness props=C20 tier=quick timeout=300 desc="hash_to_block_index is < number of blocks for every block count 1..=2^32 and every hash"
harness!(block_index_in_range, 9, {
    let len: usize = vnd::any();
    let h: u64 = vnd::any();
    vnd::assume(len >= 1 && len as u64 <= 1u64 << 32);
    let i = verif_block_index(len, h);
    vnd::cover!(i == len - 1 && len > 1000, "last block of a large filter");
    assert!(i < len);
    // the body the real method runs is the same text: cross-check on a concrete filter
    let f = Sbbf::verif_any(3);
    assert!(f.verif_block_index_of(h) == verif_block_index(3, h));
    core::mem::forget(f);
});

// @harness props=C20 tier=quick timeout=600 desc="no false negatives, one inductive step: from an arbitrary filter state, insert_hash(h) makes check_hash(h) true, never clears another hit, and only sets bits"
harness!(insert_then_check, 9, {
    let n = any_n();
    let mut f = Sbbf::verif_any(n);
    let (h, g): (u64, u64) = (vnd::any(), vnd::any());
    let g_before = f.check_hash(g);
    let (b, w): (usize, usize) = (vnd::any(), vnd::any());
    vnd::assume(b < n && w < 8);
    let word_before = f.verif_word(b, w);
    f.insert_hash(h);
    vnd::cover!(g_before && g != h, "another hash was already a hit");
    vnd::cover!(!g_before && f.check_hash(g) && g != h, "a false positive appears");
    assert!(f.check_hash(h));
    assert!(!g_before || f.check_hash(g));
    assert!(f.verif_word(b, w) & word_before == word_before);
    assert!(f.num_blocks() == n && f.size_bytes() == 32 * n);
    core::mem::forget(f);
});

// @harness props=C20,C32 tier=quick timeout=900 cfg=verif_ccap64 desc="to_bytes writes every block, in order, little-endian: 32 bytes per block and word w of block b at offset 32b+4w (1..=2 blocks, trailing all-zero blocks included)"
harness!(to_bytes_layout, 67, {
    let n: usize = vnd::any();
    vnd::assume(n >= 1 && n <= 2);
    let f = Sbbf::verif_any(n);
    let bytes = f.to_bytes();
    vnd::cover!(n == 2 && f.verif_word(1, 0) == 0 && f.verif_word(0, 3) != 0, "a second block that starts with a zero word");
    assert!(bytes.len() == 32 * n);
    let (b, w): (usize, usize) = (vnd::any(), vnd::any());
    vnd::assume(b < n && w < 8);
    let o = 32 * b + 4 * w;
    let word = f.verif_word(b, w).to_le_bytes();
    assert!(bytes[o] == word[0] && bytes[o + 1] == word[1] && bytes[o + 2] == word[2] && bytes[o + 3] == word[3]);
    core::mem::forget(bytes);
    core::mem::forget(f);
});

// @harness props=C20,C32 tier=quick timeout=900 desc="Sbbf::new reads that layout back: one block per 32 bytes, word w from bytes 4w..4w+4 little-endian (one block); lengths that are not a multiple of 32 are rejected"
harness!(new_reads_layout, 34, {
    let bytes: [u8; 32] = vnd::any();
    match Sbbf::new(&bytes) {
        Ok(g) => {
            let w: usize = vnd::any();
            vnd::assume(w < 8);
            vnd::cover!(g.verif_word(0, w) == 0x8000_0001, "a word with its top and bottom bit set");
            assert!(g.num_blocks() == 1);
            assert!(g.verif_word(0, w) == u32::from_le_bytes([bytes[4 * w], bytes[4 * w + 1], bytes[4 * w + 2], bytes[4 * w + 3]]));
            core::mem::forget(g);
        }
        Err(_) => assert!(false),
    }
    let cut: usize = vnd::any();
    vnd::assume(cut < 32 && cut != 0);
    assert!(Sbbf::new(&bytes[..cut]).is_err());
});

// @harness props=C20,C32 tier=thorough timeout=900 cfg=verif_ccap64 desc="(attempted; did not finish in 3000 s; its two halves to_bytes_layout and new_reads_layout are in the quick tier) Sbbf::new(to_bytes(f)) has the same blocks as f (1..=2 blocks)"
harness!(bytes_roundtrip, 67, {
    let n: usize = vnd::any();
    vnd::assume(n >= 1 && n <= 2);
    let f = Sbbf::verif_any(n);
    let h: u64 = vnd::any();
    let bytes = f.to_bytes();
    assert!(bytes.len() == 32 * n);
    match Sbbf::new(&bytes) {
        Ok(g) => {
            assert!(g.num_blocks() == n);
            let (b, w): (usize, usize) = (vnd::any(), vnd::any());
            vnd::assume(b < n && w < 8);
            vnd::cover!(f.verif_word(b, w) == 0x8000_0001, "a word with its top and bottom bit set");
            // equal blocks => equal answers to every check_hash (a function of the blocks only)
            assert!(g.verif_word(b, w) == f.verif_word(b, w));
            core::mem::forget(g);
        }
        Err(_) => assert!(false),
    }
    let cut: usize = vnd::any();
    vnd::assume(cut < bytes.len() && cut % 32 != 0);
    assert!(Sbbf::new(&bytes[..cut]).is_err());
    core::mem::forget(bytes);
    core::mem::forget(f);
});
