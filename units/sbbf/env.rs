
// ---- model-only helpers appended by /verif/units/sbbf (same module => private access) ----
impl Default for Block {
    fn default() -> Self {
        Self::ZERO
    }
}

impl Sbbf {
    /// An arbitrary filter of `n` (1..=3) blocks with arbitrary contents.
    pub fn verif_any(n: usize) -> Self {
        let mut blocks = vstd::cvec::Vec::with_capacity(3);
        let mut i = 0;
        while i < 3 {
            if i < n {
                blocks.push(Block(vnd::any()));
            }
            i += 1;
        }
        Self { blocks }
    }
    pub fn verif_word(&self, b: usize, w: usize) -> u32 {
        self.blocks[b].0[w]
    }
    pub fn verif_block_index_of(&self, hash: u64) -> usize {
        self.hash_to_block_index(hash)
    }
}

pub fn verif_mask(x: u32) -> [u32; 8] {
    Block::mask(x).0
}

static mut UF_N: usize = 0;
static mut UF_IN: [u32; 2] = [0; 2];
static mut UF_OUT: [[u32; 8]; 2] = [[0; 8]; 2];

impl Block {
    /// Lazily sampled uninterpreted function standing for `Block::mask` (see unit.py).
    fn verif_mask_uf(x: u32) -> Self {
        unsafe {
            if UF_N >= 1 && UF_IN[0] == x {
                return Self(UF_OUT[0]);
            }
            if UF_N >= 2 && UF_IN[1] == x {
                return Self(UF_OUT[1]);
            }
            vnd::model_bound(UF_N < 2);
            let out: [u32; 8] = vnd::any();
            let mut i = 0;
            while i < 8 {
                vnd::assume(out[i].count_ones() == 1);
                i += 1;
            }
            UF_IN[UF_N] = x;
            UF_OUT[UF_N] = out;
            UF_N += 1;
            Self(out)
        }
    }
}
