"""SBBF: the split-block bloom filter of lance-index/src/scalar/bloomfilter/sbbf.rs (Block, Sbbf)."""
import os
import re
from vf import extract as X

F = "rust/lance-index/src/scalar/bloomfilter/sbbf.rs"

UNIT = dict(
    engine="kani-transplant",
    deps='vstd = { path = "/verif/models/vstd" }',
    encoded={F: ["const SALT", "struct Block", "impl Block (mask, insert, check, to_le_bytes, to_ne_bytes)", "Index/IndexMut for Block",
                 "struct Sbbf", "Sbbf::{new, hash_to_block_index, insert_hash, check_hash, to_bytes, num_blocks, size_bytes}"]},
    models=["Block::mask inside Block::insert/check -> lazily sampled uninterpreted function (deterministic, one bit per word, <=2 distinct arguments); the real mask is checked separately",
            "Vec<Block> and the Vec<u8> that to_bytes builds -> vstd::cvec fixed-capacity contiguous vector (64 elements; Block gets a model-only Default = Block::ZERO); real Vec<u8> growth (RawVec) ran CBMC out of memory",
            "SbbfError -> unit-like error (format! payload dropped)",
            "Sbbf::insert/check over AsBytes (xxhash of the value bytes) removed: hashing is a library call; the filter is driven through insert_hash/check_hash with arbitrary u64 hashes",
            "with_ndv_fpp/with_log2_num_bytes/write_bitset removed (float sizing, io::Write)"],
    bounds={"blocks": "filters of 1..=3 blocks with arbitrary contents (one inductive step from any state)", "hashes": "all u64",
            "block index arithmetic": "all block counts 1..=2^32 and all u64 hashes", "serialisation": "1..=2 blocks", "unwind": 9},
    outside=["xxhash of the value bytes", "filter sizing from ndv/fpp (floating point)", "filters with more than 3 blocks (block operations are per block)"],
)

ENV = open(os.path.join(os.path.dirname(__file__), "env.rs")).read()


def build(repo, subs):
    src = X.strip_tests(repo.read(F))
    salt = X.extract_item(src, r"^const SALT\b")
    blk = X.extract_item(src, r"^struct Block\b")
    iblk = X.extract_item(src, r"^impl Block \{")
    idx = X.extract_item(src, r"^impl std::ops::Index<usize> for Block \{")
    idxm = X.extract_item(src, r"^impl std::ops::IndexMut<usize> for Block \{")
    st = X.extract_item(src, r"^pub struct Sbbf\b")
    impl = X.extract_item(src, r"^impl Sbbf \{")
    ins = X.extract_item(iblk, r"^\s*fn insert\b")
    chk = X.extract_item(iblk, r"^\s*fn check\b")
    iblk = iblk.replace(ins, subs.lit(ins, "let mask = Self::mask(hash);", "let mask = Self::verif_mask_uf(hash);",
                                      why="assume/guarantee split: inside insert/check the mask is an arbitrary deterministic function with one bit per word; "
                                          "harness mask_one_bit_per_word establishes exactly that for the real Block::mask (32-bit multiplications by the SALT constants "
                                          "make the monolithic query time out in CaDiCaL)"))
    iblk = iblk.replace(chk, subs.lit(chk, "let mask = Self::mask(hash);", "let mask = Self::verif_mask_uf(hash);", why="see insert"))
    for rx in (r"^\s*pub fn with_ndv_fpp\b", r"^\s*pub fn with_log2_num_bytes\b", r"^\s*pub fn insert<", r"^\s*pub fn check<",
               r"^\s*pub fn write_bitset<", r"^\s*pub fn estimated_memory_size\b"):
        impl = X.remove_item(impl, rx)
    impl = subs.rx(impl, r"return Err\(SbbfError::InvalidData \{.*?\}\);", "return Err(SbbfError::InvalidData);", flags=re.S,
                   why="error payload (format!) is not part of the semantics")
    st = subs.lit(st, "blocks: Vec<Block>,", "blocks: vstd::cvec::Vec<Block>,", why="fixed-capacity contiguous Vec model (capacity 4 blocks; slices and iterators are the real core code)")
    impl = subs.lit(impl, ".collect::<Vec<Block>>();", ".collect::<vstd::cvec::Vec<Block>>();", why="fixed-capacity Vec model")
    hbi = X.extract_item(impl, r"^\s*fn hash_to_block_index\b")
    lifted = subs.lit(hbi, "fn hash_to_block_index(&self, hash: u64) -> usize {", "pub fn verif_block_index(len: usize, hash: u64) -> usize {",
                      why="same body with the block count as a parameter, so that all counts up to 2^32 can be covered")
    lifted = subs.lit(lifted, "self.blocks.len()", "len", why="see above")
    body = ("use vstd::cvec::Vec;\n#[derive(Debug)]\npub enum SbbfError { InvalidData }\npub type Result<T> = std::result::Result<T, SbbfError>;\n\n"
            + "\n\n".join([salt, blk, iblk, idx, idxm, st, impl]) + "\n\n" + lifted.replace("#[inline]", "") + "\n" + ENV)
    lib = ("#![allow(dead_code, unused_imports, unused_variables, unused_mut, clippy::all)]\n"
           "pub mod sbbf;\npub mod harness;\n")
    return {"src/lib.rs": lib, "src/sbbf.rs": body}
