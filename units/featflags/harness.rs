//! C37 harnesses over feature_flags.rs.
use crate::env::{Manifest, MAXF};
use crate::feature_flags::*;
use vnd::harness;

const KNOWN: [u64; 6] = [
    FLAG_DELETION_FILES,
    FLAG_STABLE_ROW_IDS,
    FLAG_USE_V2_FORMAT_DEPRECATED,
    FLAG_TABLE_CONFIG,
    FLAG_BASE_PATHS,
    FLAG_DISABLE_TRANSACTION_FILE,
];

// @harness props=C37 tier=quick timeout=300 desc="known flags are distinct single bits below FLAG_UNKNOWN, which is the next single bit"
harness!(flag_constants, 8, {
    let i: usize = vnd::any();
    let j: usize = vnd::any();
    vnd::assume(i < 6 && j < 6);
    vnd::cover!(i != j, "two different flags");
    assert!(KNOWN[i].count_ones() == 1);
    assert!(KNOWN[i] < FLAG_UNKNOWN);
    assert!(i == j || KNOWN[i] != KNOWN[j]);
    assert!(FLAG_UNKNOWN.count_ones() == 1);
    // every bit below FLAG_UNKNOWN is a known flag (no gap that would be silently accepted)
    let all = KNOWN[0] | KNOWN[1] | KNOWN[2] | KNOWN[3] | KNOWN[4] | KNOWN[5];
    assert!(all == FLAG_UNKNOWN - 1);
});

// @harness props=C37 tier=quick timeout=300 desc="readers/writers refuse exactly the flag words with a bit they do not know"
harness!(refuse_unknown_bits, 4, {
    let f: u64 = vnd::any();
    let all = KNOWN[0] | KNOWN[1] | KNOWN[2] | KNOWN[3] | KNOWN[4] | KNOWN[5];
    let has_unknown = f & !all != 0;
    vnd::cover!(has_unknown && f & all != 0, "known and unknown bits mixed");
    vnd::cover!(!has_unknown && f == all, "all known bits");
    assert!(can_read_dataset(f) == !has_unknown);
    assert!(can_write_dataset(f) == !has_unknown);
    assert!(has_deprecated_v2_feature_flag(f) == (f & FLAG_USE_V2_FORMAT_DEPRECATED != 0));
});

// @harness props=C37 tier=quick timeout=600 desc="apply_feature_flags: each flag is set iff its condition holds on the manifest; mixed row-id presence is an error; flags it writes are readable/writable"
harness!(apply_reflects_contents, 5, {
    let mut m = Manifest::verif_any();
    let (stable, no_txn): (bool, bool) = (vnd::any(), vnd::any());
    let n = m.fragments.n;
    let mut any_del = false;
    let mut any_rid = false;
    let mut all_rid = true;
    let mut i = 0;
    while i < MAXF {
        if i < n {
            any_del |= m.fragments.items[i].deletion_file.is_some();
            any_rid |= m.fragments.items[i].row_id_meta.is_some();
            all_rid &= m.fragments.items[i].row_id_meta.is_some();
        }
        i += 1;
    }
    let has_config = m.config.n != 0;
    let has_bases = m.base_paths.n != 0;
    let r = apply_feature_flags(&mut m, stable, no_txn);
    vnd::cover!(r.is_err(), "mixed row ids rejected");
    vnd::cover!(r.is_ok() && any_del && any_rid && has_config && has_bases && no_txn, "every flag set");
    if (any_rid || stable) && !all_rid {
        assert!(r.is_err());
    } else {
        assert!(r.is_ok());
        let (rf, wf) = (m.reader_feature_flags, m.writer_feature_flags);
        assert!((rf & FLAG_DELETION_FILES != 0) == any_del);
        assert!((wf & FLAG_DELETION_FILES != 0) == any_del);
        assert!((rf & FLAG_STABLE_ROW_IDS != 0) == (any_rid || stable));
        assert!((wf & FLAG_STABLE_ROW_IDS != 0) == (any_rid || stable));
        assert!((wf & FLAG_TABLE_CONFIG != 0) == has_config);
        assert!((rf & FLAG_BASE_PATHS != 0) == has_bases);
        assert!((wf & FLAG_BASE_PATHS != 0) == has_bases);
        assert!((wf & FLAG_DISABLE_TRANSACTION_FILE != 0) == no_txn);
        // nothing else is ever set, the deprecated flag is never written, and what we write we accept
        let wmask = FLAG_DELETION_FILES | FLAG_STABLE_ROW_IDS | FLAG_TABLE_CONFIG | FLAG_BASE_PATHS | FLAG_DISABLE_TRANSACTION_FILE;
        assert!(wf & !wmask == 0);
        assert!(rf & !wf == 0);
        assert!(can_read_dataset(rf) && can_write_dataset(wf));
    }
});
