"""FEATFLAGS: lance-table/src/feature_flags.rs, whole file, compiled against a structural model of
`Manifest` (only the fields the file reads) and a unit-like `Error`."""
import os
from vf import extract as X

FF = "rust/lance-table/src/feature_flags.rs"

UNIT = dict(
    engine="kani-transplant",
    deps="",
    encoded={FF: ["whole file up to #[cfg(test)]: FLAG_* constants, apply_feature_flags, can_read_dataset, can_write_dataset, has_deprecated_v2_feature_flag"]},
    models=["crate::format::Manifest -> struct with reader_feature_flags, writer_feature_flags, fragments (<=3 fragments with symbolic presence of deletion_file / row_id_meta), config and base_paths (symbolic sizes; only is_empty() is read)",
            "lance_core::Error -> unit-like error; snafu::location!() -> ()"],
    bounds={"fragments": "0..=3 fragments, each with arbitrary presence of deletion file and row id metadata", "flags": "all u64 flag words", "unwind": 5},
    outside=["that every caller passes the manifest it is about to write (commit path, I/O)", "check_storage_version (I/O driven)"],
)

ENV = open(os.path.join(os.path.dirname(__file__), "env.rs")).read()


def build(repo, subs):
    src = X.strip_tests(repo.read(FF))
    src = subs.lit(src, "use snafu::location;\n", "", why="location!() replaced by the model macro")
    src = subs.lit(src, "use crate::format::Manifest;\nuse lance_core::{Error, Result};\n",
                   "use crate::env::{Manifest, Error, Result};\nuse crate::location;\n", why="structural model of Manifest; unit-like Error")
    lib = ("#![allow(dead_code, unused_imports, unused_variables, unused_mut, clippy::all)]\n"
           "#[macro_export]\nmacro_rules! location { () => { () }; }\n"
           "pub mod env;\npub mod feature_flags;\npub mod harness;\n")
    return {"src/lib.rs": lib, "src/feature_flags.rs": src, "src/env.rs": ENV}
