//! Structural model of what feature_flags.rs reads from a `Manifest`.
#[derive(Debug)]
pub enum Error {
    InvalidInput,
}
impl Error {
    pub fn invalid_input(_msg: &str, _loc: ()) -> Self {
        Self::InvalidInput
    }
}
pub type Result<T> = std::result::Result<T, Error>;

pub const MAXF: usize = 3;

#[derive(Clone, Copy, Default)]
pub struct Fragment {
    pub deletion_file: Option<u8>,
    pub row_id_meta: Option<u8>,
}

#[derive(Clone, Copy)]
pub struct FragList {
    pub items: [Fragment; MAXF],
    pub n: usize,
}
impl FragList {
    pub fn iter(&self) -> core::slice::Iter<'_, Fragment> {
        self.items[..self.n].iter()
    }
}

/// Stand-in for a HashMap / Vec of which only `is_empty()` is read.
#[derive(Clone, Copy)]
pub struct Sized {
    pub n: usize,
}
impl Sized {
    pub fn is_empty(&self) -> bool {
        self.n == 0
    }
}

pub struct Manifest {
    pub reader_feature_flags: u64,
    pub writer_feature_flags: u64,
    pub fragments: FragList,
    pub config: Sized,
    pub base_paths: Sized,
}

impl Manifest {
    pub fn verif_any() -> Self {
        let n: usize = vnd::any();
        vnd::assume(n <= MAXF);
        let mut items = [Fragment::default(); MAXF];
        let mut i = 0;
        while i < MAXF {
            items[i] = Fragment {
                deletion_file: if vnd::any::<bool>() { Some(0) } else { None },
                row_id_meta: if vnd::any::<bool>() { Some(0) } else { None },
            };
            i += 1;
        }
        Self {
            reader_feature_flags: vnd::any(),
            writer_feature_flags: vnd::any(),
            fragments: FragList { items, n },
            config: Sized { n: vnd::any() },
            base_paths: Sized { n: vnd::any() },
        }
    }
}
