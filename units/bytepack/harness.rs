//! C26 harness: byte-aligned integer packing round-trips.
use crate::bytepack::*;
use vnd::harness;

// @harness props=C26 tier=quick timeout=600 desc="BytepackedIntegerEncoder picks the narrowest byte width holding max_value (0/1/2/4/8 bytes), appends values little-endian, and ByteUnpacker of that width returns exactly the values (2 values, any max_value)"
harness!(bytepack_roundtrip, 18, {
    let max: u64 = vnd::any();
    let (a, b): (u64, u64) = (vnd::any(), vnd::any());
    vnd::assume(a <= max && b <= max);
    let mut enc = BytepackedIntegerEncoder::with_capacity(2, max);
    let size: usize = match &enc {
        BytepackedIntegerEncoder::Zero => 0,
        BytepackedIntegerEncoder::U8(_) => 1,
        BytepackedIntegerEncoder::U16(_) => 2,
        BytepackedIntegerEncoder::U32(_) => 4,
        BytepackedIntegerEncoder::U64(_) => 8,
    };
    // narrowest width that can hold max_value
    let want = if max == 0 { 0 } else if max <= 0xff { 1 } else if max <= 0xffff { 2 } else if max <= 0xffff_ffff { 4 } else { 8 };
    assert!(size == want);
    unsafe {
        enc.append(a);
        enc.append(b);
    }
    let data = enc.into_data();
    vnd::cover!(size == 4 && a == 0xffff_ffff, "largest 4-byte value");
    assert!(data.len() == 2 * size);
    if size > 0 {
        let mut it = ByteUnpacker::new(data, size);
        assert!(it.next() == Some(a));
        assert!(it.next() == Some(b));
        assert!(it.next().is_none());
    } else {
        assert!(a == 0 && b == 0);
    }
});
