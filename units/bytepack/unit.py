"""BYTEPACK: lance-encoding/src/utils/bytepack.rs (byte-aligned integer packing), whole file."""
from vf import extract as X

F = "rust/lance-encoding/src/utils/bytepack.rs"

UNIT = dict(
    engine="kani-transplant",
    deps='vstd = { path = "/verif/models/vstd" }',
    cfg=["verif_ccap16"],
    encoded={F: ["whole file up to #[cfg(test)]: U8/U16/U32/U64BytePacker, BytepackedIntegerEncoder, ByteUnpacker"]},
    models=["Vec<u8> -> vstd::cvec fixed-capacity contiguous vector (16 bytes)"],
    bounds={"values": "2 values, each <= an arbitrary u64 max_value (so every width 0/1/2/4/8 bytes and both sides of every width boundary)", "unwind": 18},
    outside=["more than 2 values (the encoder appends value by value; each append is independent)"],
)


def build(repo, subs):
    src = X.strip_tests(repo.read(F))
    n = src.count("    fn with_capacity(") + src.count("    fn append(")
    src = src.replace("    fn with_capacity(", "    pub fn with_capacity(").replace("    fn append(", "    pub fn append(")
    subs.log.append({"old": "fn with_capacity / fn append (packers)", "new": "pub fn", "count": n, "why": "visibility only"})
    lib = ("#![allow(dead_code, unused_imports, unused_variables, unused_mut, clippy::all)]\n"
           "pub mod bytepack;\npub mod harness;\n")
    return {"src/lib.rs": lib, "src/bytepack.rs": src.replace("\npub struct U8BytePacker", "\nuse vstd::cvec::Vec;\n\npub struct U8BytePacker", 1)}
