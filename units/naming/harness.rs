//! C33 harnesses: manifest names round-trip, sort in reverse version order (V2), and the latest
//! version scan keeps the maximum.
use crate::env::{Path, SmallString};
use crate::naming::*;
use vnd::harness;

/// documented meaning (format/manifest.rs: DETACHED_VERSION_MASK): a version is detached iff its top bit is set
fn spec_detached(v: u64) -> bool {
    v >> 63 == 1
}

fn any_scheme() -> ManifestNamingScheme {
    if vnd::any::<bool>() {
        ManifestNamingScheme::V1
    } else {
        ManifestNamingScheme::V2
    }
}

// @harness props=C33 tier=quick timeout=900 desc="attached versions: parse_version(name(v)) = v and detect_scheme(name(v)) = scheme, for both schemes and every u64 with the top bit clear"
harness!(attached_roundtrip, 24, {
    let s = any_scheme();
    // the number that gets printed is v under V1 and u64::MAX - v under V2: draw that one by its digits
    let printed = crate::env::verif_any_number();
    let v = if s == ManifestNamingScheme::V1 { printed } else { u64::MAX - printed };
    vnd::assume(!spec_detached(v));
    assert!(!is_detached_version(v));
    let p = s.manifest_path(&Path::root(), v);
    let name = p.verif_name();
    vnd::cover!(s == ManifestNamingScheme::V1 && name.len() == 28, "a V1 name with 19 digits");
    vnd::cover!(s == ManifestNamingScheme::V2 && v == 0, "version 0 under V2");
    assert!(s.parse_version(name.as_str()) == Some(v));
    assert!(ManifestNamingScheme::detect_scheme(name.as_str()) == Some(s));
    assert!(ManifestNamingScheme::detect_scheme_staging(name.as_str()) == s);
});

// @harness props=C33 tier=quick timeout=900 desc="detached versions: the name starts with 'd', is never parsed as an attached version under either scheme, and is detected as V2"
harness!(detached_never_attached, 24, {
    let v: u64 = crate::env::verif_any_number();
    vnd::assume(spec_detached(v));
    assert!(is_detached_version(v));
    let s = any_scheme();
    let t = any_scheme();
    let name = s.manifest_path(&Path::root(), v).verif_name();
    vnd::cover!(v == 1 << 63, "smallest detached version");
    assert!(name.as_bytes()[0] == b'd');
    assert!(t.parse_version(name.as_str()).is_none());
    assert!(ManifestNamingScheme::detect_scheme(name.as_str()) == Some(ManifestNamingScheme::V2));
});

// @harness props=C33 tier=quick timeout=900 desc="V2 names sort in reverse version order for versions < 2^20: v1 < v2 iff name(v2) < name(v1) bytewise; every detached name sorts after every attached V2 name"
harness!(v2_reverse_order_small, 42, {
    v2_order_case(1 << 20);
});

// @harness props=C33 tier=thorough timeout=900 desc="(attempted; did not finish in 3000 s: numeric vs lexicographic order of 20-digit Horner sums) V2 names sort in reverse version order, all attached u64 versions"
harness!(v2_reverse_order_full, 42, {
    v2_order_case(1 << 63);
});

fn v2_order_case(limit: u64) {
    let (v1, v2): (u64, u64) = (u64::MAX - crate::env::verif_any_number(), u64::MAX - crate::env::verif_any_number());
    vnd::assume(!spec_detached(v1) && !spec_detached(v2) && v1 < limit && v2 < limit);
    let n1 = ManifestNamingScheme::V2.manifest_path(&Path::root(), v1).verif_name();
    let n2 = ManifestNamingScheme::V2.manifest_path(&Path::root(), v2).verif_name();
    vnd::cover!(v1 + 1 == v2 && v1 % 10 == 9, "successive versions across a decimal carry");
    assert!(n1.len() == 29 && n2.len() == 29);
    assert!((v1 < v2) == (n2.as_bytes() < n1.as_bytes()));
    let d: u64 = vnd::any();
    vnd::assume(spec_detached(d));
    let nd = any_scheme().manifest_path(&Path::root(), d).verif_name();
    assert!(n1.as_bytes() < nd.as_bytes());
}

// @harness props=C33 tier=quick timeout=900 desc="latest-version scan, one step from an arbitrary accumulator: temporary / foreign files are ignored, mixed schemes are an error, otherwise the accumulator becomes the maximum of itself and the entry's version"
harness!(scan_keeps_maximum, 42, {
    let scheme = any_scheme();
    let printed = crate::env::verif_any_number();
    let v = if scheme == ManifestNamingScheme::V1 { printed } else { u64::MAX - printed };
    vnd::assume(!spec_detached(v));
    assert!(!is_detached_version(v));
    let entry = scheme.manifest_path(&Path::root(), v).verif_name();
    let had: bool = vnd::any();
    let prev_v: u64 = vnd::any();
    let prev_name = SmallString::new();
    let mut latest = if had { Some((prev_v, prev_name)) } else { None };
    let acc_scheme_kind: u8 = vnd::any();
    vnd::assume(acc_scheme_kind < 3);
    let mut acc = match acc_scheme_kind {
        0 => None,
        1 => Some(ManifestNamingScheme::V1),
        _ => Some(ManifestNamingScheme::V2),
    };
    let acc0 = acc;
    let r = scan_step(entry, &mut latest, &mut acc);
    vnd::cover!(r.is_ok() && had && v > prev_v, "a newer version replaces the latest");
    vnd::cover!(r.is_err(), "mixed naming schemes");
    match acc0 {
        Some(a) if a != scheme => assert!(r.is_err()),
        _ => {
            assert!(r.is_ok());
            assert!(acc == Some(scheme));
            match latest {
                Some((lv, ln)) => {
                    assert!(lv == if had && prev_v >= v { prev_v } else { v });
                    assert!(if had && prev_v >= v { ln == prev_name } else { ln == entry });
                }
                None => assert!(false),
            }
        }
    }
    // a temporary file name is ignored whatever the accumulator is
    let mut tmp = SmallString::new();
    tmp.push_str(".tmp_7.manifest_9c100374");
    let (l0, a0) = (latest, acc);
    assert!(scan_step(tmp, &mut latest, &mut acc).is_ok());
    assert!(latest == l0 && acc == a0);
});
