//! Environment of the naming code: a small string, the last-component view of a path, and a model
//! of `format!` for the three format strings `manifest_path` uses.

pub const CAP: usize = 40;

#[derive(Clone, Copy, Debug, PartialEq, Eq)]
pub struct SmallString {
    buf: [u8; CAP],
    len: usize,
}

impl SmallString {
    pub fn new() -> Self {
        Self { buf: [0; CAP], len: 0 }
    }
    pub fn push_bytes(&mut self, b: &[u8]) {
        let mut i = 0;
        while i < b.len() {
            vnd::model_bound(self.len < CAP);
            self.buf[self.len] = b[i];
            self.len += 1;
            i += 1;
        }
    }
    pub fn push_str(&mut self, s: &str) {
        self.push_bytes(s.as_bytes())
    }
    pub fn as_str(&self) -> &str {
        // only ASCII is ever pushed
        unsafe { core::str::from_utf8_unchecked(&self.buf[..self.len]) }
    }
    pub fn as_bytes(&self) -> &[u8] {
        &self.buf[..self.len]
    }
    pub fn len(&self) -> usize {
        self.len
    }
    /// Model-only: an arbitrary ASCII string of at most `max` bytes without NUL.
    pub fn verif_any(max: usize) -> Self {
        let buf: [u8; CAP] = vnd::any();
        let len: usize = vnd::any();
        vnd::assume(len <= max && max <= CAP);
        let mut i = 0;
        while i < CAP {
            vnd::assume(buf[i] < 128);
            i += 1;
        }
        Self { buf, len }
    }
}

static mut REG_N: usize = 0;
static mut REG_V: [u64; 2] = [0; 2];
static mut REG_D: [[u8; 20]; 2] = [[0; 20]; 2];

fn horner(d: &[u8; 20]) -> u64 {
    let mut acc: u64 = 0;
    let mut i = 0;
    while i < 20 {
        vnd::assume(d[i] <= 9);
        // acc * 10 + d must not overflow: u64::MAX = 1844674407370955161 * 10 + 5
        vnd::assume(acc < 1844674407370955161 || (acc == 1844674407370955161 && d[i] <= 5));
        acc = (acc << 3) + (acc << 1) + d[i] as u64;
        i += 1;
    }
    acc
}

/// Model-only: an arbitrary u64 given by its 20 decimal digits (every u64 has exactly one such
/// expansion).  The pair is remembered so that `digits20` returns these very digits for this value:
/// the solver then never has to prove that decimal expansions are unique.
pub fn verif_any_number() -> u64 {
    let d: [u8; 20] = vnd::any();
    let v = horner(&d);
    unsafe {
        vnd::model_bound(REG_N < 2);
        REG_V[REG_N] = v;
        REG_D[REG_N] = d;
        REG_N += 1;
    }
    v
}

/// The 20 decimal digits of `v`, most significant first: the registered expansion if the harness
/// created `v` through `verif_any_number`, otherwise chosen nondeterministically and tied to `v` by
/// Horner evaluation (the expansion is unique, so exactly one choice survives the assume).
pub fn digits20(v: u64) -> [u8; 20] {
    unsafe {
        if REG_N >= 1 && REG_V[0] == v {
            return REG_D[0];
        }
        if REG_N >= 2 && REG_V[1] == v {
            return REG_D[1];
        }
    }
    let d: [u8; 20] = vnd::any();
    vnd::assume(horner(&d) == v);
    d
}

/// `{:020}`
pub fn push_u64_pad20(s: &mut SmallString, v: u64) {
    let d = digits20(v);
    let mut i = 0;
    while i < 20 {
        s.push_bytes(&[b'0' + d[i]]);
        i += 1;
    }
}

/// `{}`
pub fn push_u64(s: &mut SmallString, v: u64) {
    let d = digits20(v);
    let mut started = false;
    let mut i = 0;
    while i < 20 {
        if d[i] != 0 || i == 19 {
            started = true;
        }
        if started {
            s.push_bytes(&[b'0' + d[i]]);
        }
        i += 1;
    }
}

/// `format!("{prefix}{v}.{ext}")`
pub fn fmt_prefix_plain_ext(prefix: &str, v: u64, ext: &str) -> SmallString {
    let mut s = SmallString::new();
    s.push_str(prefix);
    push_u64(&mut s, v);
    s.push_str(".");
    s.push_str(ext);
    s
}

/// `format!("{v:020}.{ext}")`
pub fn fmt_pad20_ext(v: u64, ext: &str) -> SmallString {
    let mut s = SmallString::new();
    push_u64_pad20(&mut s, v);
    s.push_str(".");
    s.push_str(ext);
    s
}

/// Last-component view of `object_store::path::Path`.
#[derive(Clone, Copy, Debug, PartialEq, Eq)]
pub struct Path {
    last: SmallString,
}
pub trait PathPart {
    fn to_small(self) -> SmallString;
}
impl PathPart for SmallString {
    fn to_small(self) -> SmallString {
        self
    }
}
impl PathPart for &str {
    fn to_small(self) -> SmallString {
        let mut s = SmallString::new();
        s.push_str(self);
        s
    }
}
impl Path {
    pub fn root() -> Self {
        Self { last: SmallString::new() }
    }
    pub fn child(&self, part: impl PathPart) -> Self {
        Self { last: part.to_small() }
    }
    pub fn filename(&self) -> Option<&str> {
        Some(self.last.as_str())
    }
    pub fn verif_name(&self) -> SmallString {
        self.last
    }
}

// ---- models of the `core::str` calls the naming code makes (ASCII strings) ----

pub fn split_once_char(s: &str, c: char) -> Option<(&str, &str)> {
    let b = s.as_bytes();
    let mut i = 0;
    while i < b.len() {
        if b[i] == c as u8 {
            // ASCII: every byte index is a char boundary
            return Some(unsafe { (core::str::from_utf8_unchecked(&b[..i]), core::str::from_utf8_unchecked(&b[i + 1..])) });
        }
        i += 1;
    }
    None
}

/// `s.parse::<u64>().ok()`: optional leading '+', then one or more ASCII digits, value <= u64::MAX.
/// A digit string that is the (zero-stripped or zero-padded) expansion of a registered number parses
/// to that number by table lookup -- decimal expansions are unique -- so that the solver compares
/// digit strings instead of re-deriving the value arithmetically; anything else goes through Horner.
pub fn parse_u64(s: &str) -> Option<u64> {
    let b = s.as_bytes();
    let mut start = 0;
    if b.len() > 0 && b[0] == b'+' {
        start = 1;
    }
    if start >= b.len() {
        return None;
    }
    let nd = b.len() - start;
    vnd::model_bound(nd <= 20);
    // right-aligned, zero-padded 20-digit form
    let mut norm = [0u8; 20];
    let mut i = 0;
    while i < 20 {
        if i < nd {
            let c = b[start + i];
            if c < b'0' || c > b'9' {
                return None;
            }
            // position 20 - nd + i
            let mut j = 0;
            while j < 20 {
                if j + nd == 20 + i {
                    norm[j] = c - b'0';
                }
                j += 1;
            }
        }
        i += 1;
    }
    unsafe {
        if REG_N >= 1 && REG_D[0] == norm {
            return Some(REG_V[0]);
        }
        if REG_N >= 2 && REG_D[1] == norm {
            return Some(REG_V[1]);
        }
    }
    let mut acc: u64 = 0;
    let mut i = 0;
    while i < 20 {
        let d = norm[i] as u64;
        if !(acc < 1844674407370955161 || (acc == 1844674407370955161 && d <= 5)) {
            return None;
        }
        acc = (acc << 3) + (acc << 1) + d;
        i += 1;
    }
    Some(acc)
}

pub fn starts_with(s: &str, p: &str) -> bool {
    let (b, q) = (s.as_bytes(), p.as_bytes());
    if q.len() > b.len() {
        return false;
    }
    let mut i = 0;
    while i < q.len() {
        if b[i] != q[i] {
            return false;
        }
        i += 1;
    }
    true
}

pub fn ends_with(s: &str, p: &str) -> bool {
    let (b, q) = (s.as_bytes(), p.as_bytes());
    if q.len() > b.len() {
        return false;
    }
    let off = b.len() - q.len();
    let mut i = 0;
    while i < q.len() {
        if b[off + i] != q[i] {
            return false;
        }
        i += 1;
    }
    true
}

pub fn contains(s: &str, p: &str) -> bool {
    let (b, q) = (s.as_bytes(), p.as_bytes());
    if q.len() > b.len() {
        return false;
    }
    let mut off = 0;
    while off + q.len() <= b.len() {
        let mut i = 0;
        let mut ok = true;
        while i < q.len() {
            if b[off + i] != q[i] {
                ok = false;
            }
            i += 1;
        }
        if ok {
            return true;
        }
        off += 1;
    }
    false
}

pub fn nth_char(s: &str, n: usize) -> Option<char> {
    let b = s.as_bytes();
    if n < b.len() {
        Some(b[n] as char)
    } else {
        None
    }
}
