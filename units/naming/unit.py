"""NAMING: manifest file naming (ManifestNamingScheme, lance-table/src/io/commit.rs) and
is_detached_version (format/manifest.rs)."""
import os
from vf import extract as X

C = "rust/lance-table/src/io/commit.rs"
M = "rust/lance-table/src/format/manifest.rs"

UNIT = dict(
    engine="kani-transplant",
    deps="",
    encoded={C: ["const VERSIONS_DIR / MANIFEST_EXTENSION / DETACHED_VERSION_PREFIX", "enum ManifestNamingScheme",
                 "impl ManifestNamingScheme: manifest_path, parse_version, detect_scheme, detect_scheme_staging",
                 "current_manifest_local: the per-entry body of its directory loop (lifted into a function over file names)"],
             M: ["const DETACHED_VERSION_MASK", "fn is_detached_version"]},
    models=["format!(..) -> local macro for exactly the three format strings in manifest_path; an integer is printed as a vector of 20 decimal digits chosen "
            "nondeterministically and constrained by assume(horner(digits) == value) (the decimal expansion is unique, so this is exact; core::fmt is out of reach for CBMC); "
            "`{}` strips leading zeros, `{:020}` keeps them",
            "object_store::path::Path -> holds the last path component only (base.child(dir).child(name) -> name)",
            "str::split_once(char), str::parse::<u64>, starts_with, ends_with, chars().nth -> byte-loop models on ASCII strings (checked differentially against core natively by models/difftest; core's searchers are out of reach for CBMC)"],
    bounds={"versions": "all u64 (attached: top bit clear; detached: top bit set)", "unwind": 24,
            "directory scan": "2 entries per step (one inductive step of the latest-version loop from an arbitrary accumulator)"},
    outside=["object-store listing and its ordering", "migrate_scheme_to_v2's renames (I/O)", "staging names carry a uuid suffix: any suffix without '.' in the first 20 characters"],
)

ENV = open(os.path.join(os.path.dirname(__file__), "env.rs")).read()


def build(repo, subs):
    c = X.strip_tests(repo.read(C))
    m = X.strip_tests(repo.read(M))
    consts = [X.extract_item(c, r"^const %s\b" % n) for n in ("VERSIONS_DIR", "MANIFEST_EXTENSION", "DETACHED_VERSION_PREFIX")]
    en = X.extract_item(c, r"^pub enum ManifestNamingScheme\b")
    impl = X.extract_item(c, r"^impl ManifestNamingScheme \{")
    impl = subs.rx(impl, r'format!\(\s*"\{DETACHED_VERSION_PREFIX\}\{version\}\.\{MANIFEST_EXTENSION\}"\s*\)',
                   "crate::env::fmt_prefix_plain_ext(DETACHED_VERSION_PREFIX, version, MANIFEST_EXTENSION)", why="model of format! ({}{}.{})")
    impl = subs.rx(impl, r'format!\(\s*"\{version\}\.\{MANIFEST_EXTENSION\}"\s*\)',
                   'crate::env::fmt_prefix_plain_ext("", version, MANIFEST_EXTENSION)', why="model of format! ({}.{})")
    impl = subs.rx(impl, r'format!\(\s*"\{inverted_version:020\}\.\{MANIFEST_EXTENSION\}"\s*\)',
                   "crate::env::fmt_pad20_ext(inverted_version, MANIFEST_EXTENSION)", why="model of format! ({:020}.{})")
    impl = subs.rx(impl, r"filename\s*\.split_once\('\.'\)", "crate::env::split_once_char(filename, '.')", why="model of str::split_once on ASCII (core's string searchers blow CBMC up: 2.2M steps, 106M clauses measured)")
    impl = subs.lit(impl, "version_str.parse::<u64>().ok()", "crate::env::parse_u64(version_str)", why="model of <u64 as FromStr>::from_str: optional '+', >=1 ASCII digits, no overflow")
    # every prefix/suffix/substring test on the file name goes to the byte-loop models (whatever the code asks for)
    impl = subs.rx(impl, r"\bfilename\.(starts_with|ends_with|contains)\(", r"crate::env::\1(filename, ", count=None,
                   why="models of str::starts_with / ends_with / contains with a &str pattern (byte comparison)")
    impl = subs.lit(impl, "filename.chars().nth(20) == Some('.')", "crate::env::nth_char(filename, 20) == Some('.')", why="model of chars().nth on ASCII (byte index)")
    if "format!" in impl:
        raise X.Inconclusive("ManifestNamingScheme uses a format string the model does not know")
    mask = X.extract_item(m, r"^pub const DETACHED_VERSION_MASK\b")
    isd = X.extract_item(m, r"^pub fn is_detached_version\b")
    # the per-entry body of current_manifest_local's loop
    cml = X.extract_item(c, r"^fn current_manifest_local\b")
    _, loop_body = X.extract_block_after(cml, r"let mut scheme: Option<ManifestNamingScheme> = None;", r"for entry in entries \{")
    a = loop_body.find("let Some(entry_scheme) = ManifestNamingScheme::detect_scheme(&filename) else {")
    if a < 0:
        raise X.Inconclusive("current_manifest_local loop body changed shape")
    step = loop_body[a:]
    step = subs.rx(step, r"return Err\(io::Error::new\(\s*io::ErrorKind::InvalidData,\s*format!\(.*?\),\s*\)\);", "return Err(());", flags=16,
                   why="error payload (format!) is not part of the semantics")
    n_entry = step.count("(version, entry)")
    step = subs.lit(step, "(version, entry)", "(version, entry.clone())", count=n_entry, why="DirEntry -> file name model (Copy-like)")
    body = f"""use crate::env::{{Path, SmallString}};

{chr(10).join(consts)}

{mask}

{isd}

{en}

{impl}

/// One iteration of the directory loop of `current_manifest_local`, lifted verbatim: `entry` is the
/// file name, the accumulator is (latest_entry, scheme).  Err(()) = mixed naming schemes.
pub fn scan_step(
    entry: SmallString,
    latest_acc: &mut Option<(u64, SmallString)>,
    scheme_acc: &mut Option<ManifestNamingScheme>,
) -> std::result::Result<(), ()> {{
    let mut scheme = *scheme_acc;
    let mut latest_entry = *latest_acc;
    let filename = entry.as_str();
    // a one-iteration `for` so that the body's `continue` means what it means in the original loop
    for _once in 0..1 {{
{step}
    }}
    *scheme_acc = scheme;
    *latest_acc = latest_entry;
    Ok(())
}}
"""
    lib = ("#![allow(dead_code, unused_imports, unused_variables, unused_mut, unreachable_code, clippy::all)]\n"
           "pub mod env;\npub mod naming;\npub mod harness;\n")
    return {"src/lib.rs": lib, "src/naming.rs": body, "src/env.rs": ENV}
