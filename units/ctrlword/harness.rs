//! C27 harness: control words carry repetition/definition levels losslessly.
use crate::repdef::*;
use vnd::harness;
use vstd::cvec::Vec;

fn bitlen(v: u16) -> u16 {
    16 - v.leading_zeros() as u16
}

// @harness props=C27 tier=quick timeout=900 desc="log_2_ceil(v) is the bit length of v for every u32 > 0 (so that every level <= max fits its field)"
harness!(log2_is_bit_length, 3, {
    let v: u32 = vnd::any();
    vnd::assume(v > 0);
    vnd::cover!(v == 1 << 24, "a number using the top table quarter");
    assert!(log_2_ceil(v) == 32 - v.leading_zeros());
});

fn roundtrip(has_rep: bool, has_def: bool) {
    let (max_rep, max_def): (u16, u16) = (vnd::any(), vnd::any());
    vnd::assume(max_rep <= 4095 && max_def <= 4095);
    vnd::assume(!has_rep || max_rep >= 1);
    vnd::assume(!has_def || max_def >= 1);
    let max_visible_def: u16 = vnd::any();
    let rep: [u16; 2] = vnd::any();
    let def: [u16; 2] = vnd::any();
    vnd::assume(rep[0] <= max_rep && rep[1] <= max_rep && def[0] <= max_def && def[1] <= max_def);
    let mut it = build_control_word_iterator(
        if has_rep { Some(&rep[..]) } else { None },
        if has_rep { max_rep } else { 0 },
        if has_def { Some(&def[..]) } else { None },
        if has_def { max_def } else { 0 },
        max_visible_def,
        2,
    );
    let bpw = it.bytes_per_word();
    // the word is exactly as wide as the two fields need
    let need = (if has_rep { bitlen(max_rep) } else { 0 }) + (if has_def { bitlen(max_def) } else { 0 });
    assert!(bpw == if need == 0 { 0 } else if need <= 8 { 1 } else if need <= 16 { 2 } else { 4 });
    assert!(it.has_repetition() == has_rep);
    let parser = ControlWordParser::new(it.bits_rep(), it.bits_def());
    assert!(parser.bytes_per_word() == bpw && parser.has_rep() == has_rep);
    let mut k = 0;
    while k < 2 {
        let mut buf: Vec<u8> = Vec::new();
        let d = it.append_next(&mut buf);
        vnd::cover!(k == 1, "second item");
        match d {
            Some(d) => {
                assert!(buf.len() == bpw);
                let mut out_rep: Vec<u16> = Vec::new();
                let mut out_def: Vec<u16> = Vec::new();
                let mut padded = [0u8; 4];
                let mut j = 0;
                while j < 4 {
                    if j < bpw {
                        padded[j] = buf[j];
                    }
                    j += 1;
                }
                parser.parse(&padded[..], &mut out_rep, &mut out_def);
                assert!(out_rep.len() == has_rep as usize && out_def.len() == has_def as usize);
                if has_rep {
                    assert!(out_rep[0] == rep[k]);
                }
                if has_def {
                    assert!(out_def[0] == def[k]);
                }
                // the description the writer computes is the one the reader re-derives
                let p = parser.parse_desc(&padded[..], if has_rep { max_rep } else { 0 }, max_visible_def);
                assert!(p.is_new_row == d.is_new_row);
                assert!(p.is_valid_item == d.is_valid_item);
                assert!(p.is_visible == d.is_visible);
                // and means what it says
                assert!(d.is_new_row == (!has_rep || rep[k] == max_rep));
                assert!(d.is_valid_item == (!has_def || def[k] == 0));
                assert!(d.is_visible == (!(has_rep && has_def) || def[k] <= max_visible_def));
            }
            None => assert!(false),
        }
        k += 1;
    }
    // the iterator is exhausted after its items
    let mut buf: Vec<u8> = Vec::new();
    assert!(it.append_next(&mut buf).is_none());
}

// @harness props=C27 tier=quick timeout=900 desc="rep+def control words (1, 2 or 4 bytes): writer and parser agree on width, levels round-trip, and the row/visibility/validity description matches (levels <= 4095)"
harness!(control_words_rep_and_def, 6, {
    roundtrip(true, true);
});

// @harness props=C27 tier=quick timeout=900 desc="rep-only and def-only control words round-trip; the iterator ends with None"
harness!(control_words_single_level, 6, {
    let rep_only: bool = vnd::any();
    roundtrip(rep_only, !rep_only);
});

// @harness props=C27 tier=quick timeout=600 desc="no rep and no def: zero-width control words, every item is a new valid visible row"
harness!(control_words_none, 6, {
    roundtrip(false, false);
});
