"""CTRLWORD: repetition/definition control words of lance-encoding/src/repdef.rs: the
ControlWordIterator family (packing rep/def levels into 1/2/4-byte words),
build_control_word_iterator and the inverse ControlWordParser; log_2_ceil from lance-core."""
import os
import re
from vf import extract as X

F = "rust/lance-encoding/src/repdef.rs"
B = "rust/lance-core/src/utils/bit.rs"

UNIT = dict(
    engine="kani-transplant",
    deps='vstd = { path = "/verif/models/vstd" }',
    encoded={F: ["everything from `BinaryControlWordIterator` to the end of `impl ControlWordParser` (Binary/Unary/Nilary iterators, get_mask, ControlWordIterator, ControlWordDesc, build_control_word_iterator, ControlWordParser)"],
             B: ["const LOG_TABLE_256", "fn log_2_ceil"]},
    models=["Vec<u8>/Vec<u16> -> vstd::cvec fixed-capacity contiguous vector"],
    bounds={"levels": "max_rep, max_def <= 4095 (control words of 1, 2 and 4 bytes all occur), rep <= max_rep, def <= max_def, max_visible_def arbitrary",
            "items": "2 items per run (each append/parse is independent of the others)", "shapes": "rep+def, rep only, def only, neither"},
    outside=["RepDefBuilder / SerializedRepDefs / RepDefUnraveler (Arrow OffsetBuffer/NullBuffer, Arc<[u16]>)", "MiniBlockRepIndex (primitive.rs)", "nesting deeper than 4095 levels"],
)


def build(repo, subs):
    src = X.strip_tests(repo.read(F))
    bit = X.strip_tests(repo.read(B))
    region = X.cut_before(src, r"^/// A \[`ControlWordIterator`\] when there are both repetition and definition levels")
    table = X.extract_item(bit, r"^const LOG_TABLE_256\b")
    log2 = X.extract_item(bit, r"^pub fn log_2_ceil\b")
    region = re.sub(r"^    (fn append_next\()", r"    pub \1", region, flags=re.M)
    body = ("use std::iter::{Copied, Zip};\nuse vstd::cvec::Vec;\n\n" + table + "\n\n" + log2 + "\n\n" + region)
    lib = ("#![allow(dead_code, unused_imports, unused_variables, unused_mut, clippy::all)]\n"
           "pub mod repdef;\npub mod harness;\n")
    return {"src/lib.rs": lib, "src/repdef.rs": body}
