//! C21/C32 harness: the tree map's byte framing round-trips.
use crate::mask::RowIdTreeMap;
use vnd::harness;

// @harness props=C21,C32 tier=thorough quick_for=C32 timeout=1200 desc="deserialize_from(serialize_into(m)) has exactly m's members (full-fragment markers included), serialize_into writes exactly serialized_size() bytes, and a truncated buffer is an error, not a different set"
harness!(treemap_bytes_roundtrip, 8, {
    roaring::verif_set_universe();
    let m = RowIdTreeMap::verif_any(2, 2);
    let x: u64 = vnd::any();
    let size = m.serialized_size();
    let mut buf = [0u8; 32];
    vnd::assume(size <= 32);
    {
        let mut w: &mut [u8] = &mut buf[..];
        let r = m.serialize_into(&mut w);
        assert!(r.is_ok());
        // bytes written = serialized_size
        assert!(32 - w.len() == size);
    }
    let back = RowIdTreeMap::deserialize_from(&buf[..size]);
    match back {
        Ok(b) => {
            vnd::cover!(m.verif_has_full() && m.verif_fragments() == 2 && m.contains(x), "a member of a map with a full fragment and a second fragment");
            assert!(b.contains(x) == m.contains(x));
            assert!(b.len() == m.len());
            assert!(b == m);
        }
        Err(_) => assert!(false),
    }
    let cut: usize = vnd::any();
    vnd::assume(cut < size);
    assert!(RowIdTreeMap::deserialize_from(&buf[..cut]).is_err());
});
