"""MASK-SER: `RowIdTreeMap::{serialized_size, serialize_into, deserialize_from}` (lance-core/src/utils/mask.rs):
the hand-written framing of the tree map (u32 count, then per fragment id, bitmap size, bitmap bytes;
size 0 = full fragment)."""
import importlib.util
import os
from vf import extract as X

MASK = "rust/lance-core/src/utils/mask.rs"
L1 = os.path.join(os.path.dirname(__file__), "..", "mask_l1", "unit.py")

_s = importlib.util.spec_from_file_location("unit_mask_l1_for_ser", L1)
_m = importlib.util.module_from_spec(_s)
_s.loader.exec_module(_m)

UNIT = dict(
    engine="kani-transplant",
    deps='vstd = { path = "/verif/models/vstd" }\nroaring = { package = "vroaring_bits", path = "/verif/models/roaring_bits" }',
    encoded={MASK: ["as unit mask_l1, plus RowIdTreeMap::{serialized_size, serialize_into, deserialize_from}"]},
    models=_m.UNIT["models"] + ["std::io::{Read, Write} and byteorder::{ReadBytesExt, WriteBytesExt, LittleEndian} -> vnd::io in-memory model with a heap-free error type",
                                "the bitmap's own byte form is the model's private 2-byte framing (never empty, self-inverse), so only lance's framing around it is decided",
                                "vec![0; n] read buffer -> vstd::cvec (4 bytes; the model bitmap needs 2)"],
    bounds={"fragments_per_map": "<=2 fragments (arbitrary u32 ids), each Full or an arbitrary finite/co-finite bitmap over 4 symbolic offsets", "buffer": "32 bytes (4 + 2 x (8 + 2) needed)"},
    outside=["the real roaring byte format (roaring crate)", "RowIdMask::into_arrow / from_arrow (Arrow BinaryArray framing)"],
)


def build(repo, subs):
    src = X.strip_tests(repo.read(MASK))
    body = X.cut_before(src, r"^/// A row id mask to select or deselect particular row ids")
    for rx in (r"^\s*pub fn into_arrow\b", r"^\s*pub fn from_arrow\b", r"^impl DeepSizeOf for RowIdSelection\b"):
        body = X.remove_item(body, rx)
    body = subs.lit(body, "#[derive(Clone, Debug, Default, DeepSizeOf)]", "#[derive(Clone, Debug, Default)]", why="deepsize derive is bookkeeping, not semantics")
    body = subs.lit(body, "#[derive(Clone, Debug, Default, PartialEq, DeepSizeOf)]", "#[derive(Clone, Debug, Default, PartialEq)]", why="deepsize derive is bookkeeping, not semantics")
    body = subs.lit(body, "let mut buffer = vec![0; bitmap_size as usize];", "let mut buffer: vstd::cvec::Vec<u8> = vstd::cvec::Vec::verif_filled(0, bitmap_size as usize);", why="vec! -> model constructor")
    header = ("use std::iter;\nuse std::ops::{Range, RangeBounds};\nuse vstd::collections::{BTreeMap, HashSet};\n"
              "use roaring::{MultiOps, RoaringBitmap, RoaringTreemap};\nuse crate::address::RowAddress;\n"
              "use vnd::io::{Read, Write};\nuse vnd::io::byteorder::{self, ReadBytesExt, WriteBytesExt};\n"
              "// error payloads are irrelevant here: format!/location! are shadowed by cheap stand-ins, Error is unit-like\n"
              "macro_rules! format { ($($t:tt)*) => { String::new() } }\nmacro_rules! location { () => { () } }\n"
              "#[derive(Debug)]\npub enum Error { Io, Other }\nimpl From<vnd::io::Error> for Error { fn from(_: vnd::io::Error) -> Self { Self::Io } }\n"
              "impl Error {\n    pub fn io<S>(_m: S, _l: ()) -> Self { Self::Io }\n    pub fn invalid_input<S>(_m: S, _l: ()) -> Self { Self::Other }\n    pub fn corrupt_file<P, S>(_p: P, _m: S, _l: ()) -> Self { Self::Other }\n}\n"
              "pub type Result<T> = std::result::Result<T, Error>;\n\n")
    n = body.count("crate::Result")
    if n:
        body = subs.lit(body, "crate::Result", "Result", count=n, why="unit-like error")
    addr = X.strip_tests(repo.read(_m.ADDR))
    lib = ("#![allow(dead_code, unused_imports, unused_variables, unused_mut, clippy::all)]\n"
           "pub mod address;\npub mod mask;\npub mod harness;\n")
    return {"src/lib.rs": lib, "src/address.rs": addr, "src/mask.rs": header + body + "\n" + _m.ENV}
