//! C34 harnesses: row-id leaf encodings agree with the plain list they stand for.
use crate::bitmap::Bitmap;
use crate::encoded_array::EncodedU64Array;
use crate::segment::U64Segment;
use vnd::harness;
use vstd::cvec::Vec;

const N: usize = 3;

/// an arbitrary list of <= 3 u64 values and its encoded form built by the real `From<Vec<u64>>`
fn any_values() -> ([u64; N], usize) {
    let vals: [u64; N] = vnd::any();
    let n: usize = vnd::any();
    vnd::assume(n <= N);
    (vals, n)
}

fn to_vec(vals: &[u64; N], n: usize) -> Vec<u64> {
    let mut v = Vec::new();
    let mut i = 0;
    while i < N {
        if i < n {
            v.push(vals[i]);
        }
        i += 1;
    }
    v
}

// @harness props=C34 tier=quick timeout=600 desc="EncodedU64Array::from(values): whatever width it picks (U16/U32/U64), len/get/first/last/min/max agree with the list"
harness!(encoded_array_faithful, 9, {
    let (vals, n) = any_values();
    let a = EncodedU64Array::from(to_vec(&vals, n));
    let i: usize = vnd::any();
    vnd::cover!(matches!(a, EncodedU64Array::U16 { .. }) && n == 3, "16-bit offsets");
    vnd::cover!(matches!(a, EncodedU64Array::U32 { .. }) && n == 3, "32-bit offsets");
    vnd::cover!(matches!(a, EncodedU64Array::U64(_)) && n == 3, "plain u64");
    assert!(a.len() == n);
    assert!(a.get(i) == if i < n { Some(vals[i]) } else { None });
    if n > 0 {
        assert!(a.first() == Some(vals[0]) && a.last() == Some(vals[n - 1]));
        let (mut lo, mut hi) = (vals[0], vals[0]);
        let mut k = 1;
        while k < N {
            if k < n {
                if vals[k] < lo { lo = vals[k]; }
                if vals[k] > hi { hi = vals[k]; }
            }
            k += 1;
        }
        assert!(a.min() == Some(lo) && a.max() == Some(hi));
    } else {
        assert!(a.first().is_none() && a.min().is_none() && a.max().is_none());
    }
});

// @harness props=C34,C15 tier=quick timeout=600 desc="EncodedU64Array::binary_search on a sorted list: Ok(i) iff values[i]==v, Err(i) is the insertion point -- for every width, values at the 16/32-bit boundaries included"
harness!(encoded_array_binary_search, 9, {
    let (vals, n) = any_values();
    vnd::assume((n < 2 || vals[0] < vals[1]) && (n < 3 || vals[1] < vals[2]));
    let a = EncodedU64Array::from(to_vec(&vals, n));
    let v: u64 = vnd::any();
    let r = a.binary_search(v);
    vnd::cover!(n == 3 && vals[2] - vals[0] == u16::MAX as u64 && v == vals[2], "largest id at offset 65535");
    vnd::cover!(n == 3 && vals[2] - vals[0] == u32::MAX as u64 && v == vals[2], "largest id at offset 2^32-1");
    match r {
        Ok(i) => assert!(i < n && vals[i] == v),
        Err(i) => {
            assert!(i <= n);
            let mut k = 0;
            while k < N {
                if k < n {
                    assert!(vals[k] != v);
                    assert!((k < i) == (vals[k] < v));
                }
                k += 1;
            }
        }
    }
});

// @harness props=C34 tier=quick timeout=600 desc="EncodedU64Array::iter / into_iter / slice yield the list (in order)"
harness!(encoded_array_iter_slice, 9, {
    let (vals, n) = any_values();
    let a = EncodedU64Array::from(to_vec(&vals, n));
    let mut k = 0;
    for x in a.iter() {
        assert!(k < n && x == vals[k]);
        k += 1;
    }
    assert!(k == n);
    let (off, len): (usize, usize) = (vnd::any(), vnd::any());
    vnd::assume(off <= n && len <= n - off);
    let s = a.slice(off, len);
    let j: usize = vnd::any();
    vnd::cover!(off == 1 && len == 2, "a proper sub-slice");
    assert!(s.len() == len);
    assert!(s.get(j) == if j < len { Some(vals[off + j]) } else { None });
});

fn any_bitmap(max_bits: usize) -> Bitmap {
    let len: usize = vnd::any();
    vnd::assume(len <= max_bits);
    let bytes: [u8; 4] = vnd::any();
    let mut data = Vec::new();
    let mut i = 0;
    while i < 4 {
        if i < len.div_ceil(8) {
            data.push(bytes[i]);
        }
        i += 1;
    }
    let mut b = Bitmap { data, len };
    // representation invariant: bits past len are zero (new_full / new_empty / set keep it)
    let lim = 8 * max_bits.div_ceil(8);
    let mut k = 0;
    while k < lim {
        if k >= len && k < 8 * len.div_ceil(8) {
            b.clear(k);
        }
        k += 1;
    }
    b
}

// @harness props=C34 tier=quick timeout=600 desc="Bitmap set/clear/get/count_ones/count_zeros and BitmapSlice::count_ones agree with bit-by-bit counting (<= 32 bits)"
harness!(bitmap_ops, 34, {
    let mut b = any_bitmap(32);
    let len = b.len();
    let (i, j): (usize, usize) = (vnd::any(), vnd::any());
    vnd::assume(i < len && j < len);
    let gj = b.get(j);
    b.set(i);
    assert!(b.get(i) && (i == j || b.get(j) == gj));
    b.clear(i);
    assert!(!b.get(i) && (i == j || b.get(j) == gj));
    let mut ones = 0usize;
    let mut k = 0;
    while k < 32 {
        if k < len && b.get(k) {
            ones += 1;
        }
        k += 1;
    }
    assert!(b.count_ones() == ones && b.count_zeros() == len - ones);
    let (st, sl): (usize, usize) = (vnd::any(), vnd::any());
    vnd::assume(st <= len && sl <= len - st);
    let mut sones = 0usize;
    let mut k = 0;
    while k < 32 {
        if k >= st && k < st + sl && b.get(k) {
            sones += 1;
        }
        k += 1;
    }
    vnd::cover!(sl > 16 && st % 8 == 3, "a slice spanning three bytes from the middle of a byte");
    assert!(b.slice(st, sl).count_ones() == sones);
    assert!(b.slice(st, sl).count_zeros() == sl - sones);
});

// @harness props=C34 tier=quick timeout=600 desc="Bitmap::new_full / new_empty / From<&[bool]> / From<BitmapSlice> (<= 16 bits)"
harness!(bitmap_constructors, 18, {
    let len: usize = vnd::any();
    vnd::assume(len <= 16);
    let k: usize = vnd::any();
    vnd::assume(k < len);
    let f = Bitmap::new_full(len);
    let e = Bitmap::new_empty(len);
    vnd::cover!(len == 13, "a length that is not a multiple of 8");
    assert!(f.get(k) && !e.get(k));
    assert!(f.count_ones() == len && e.count_ones() == 0 && f.len() == len);
    let b = any_bitmap(16);
    let (st, sl): (usize, usize) = (vnd::any(), vnd::any());
    vnd::assume(st <= b.len() && sl <= b.len() - st);
    let c = Bitmap::from(b.slice(st, sl));
    let q: usize = vnd::any();
    vnd::assume(q < sl);
    assert!(c.len() == sl && c.get(q) == b.get(st + q));
});

/// A valid RangeWithHoles: holes strictly inside the range, sorted, distinct; first/last present.
fn any_range_with_holes() -> (U64Segment, u64, u64, [u64; 2], usize) {
    let (s, e): (u64, u64) = (vnd::any(), vnd::any());
    vnd::assume(s < e && e - s <= 64);
    let h: [u64; 2] = vnd::any();
    let nh: usize = vnd::any();
    vnd::assume(nh >= 1 && nh <= 2);
    vnd::assume(h[0] > s && h[0] < e - 1);
    vnd::assume(nh < 2 || (h[1] > h[0] && h[1] < e - 1));
    let mut hv = Vec::new();
    hv.push(h[0]);
    if nh == 2 {
        hv.push(h[1]);
    }
    (U64Segment::RangeWithHoles { range: s..e, holes: EncodedU64Array::from(hv) }, s, e, h, nh)
}

fn is_hole(h: &[u64; 2], nh: usize, v: u64) -> bool {
    v == h[0] || (nh == 2 && v == h[1])
}

// @harness props=C34 tier=quick timeout=900 desc="U64Segment::Range and RangeWithHoles: len/contains/position/range agree with the expanded list"
harness!(segment_range_with_holes, 9, {
    let (seg, s, e, h, nh) = any_range_with_holes();
    let v: u64 = vnd::any();
    let present = v >= s && v < e && !is_hole(&h, nh, v);
    vnd::cover!(present && nh == 2 && v > h[1], "a value after both holes");
    assert!(seg.len() == (e - s) as usize - nh);
    assert!(seg.contains(v) == present);
    let holes_below = (h[0] < v) as usize + (nh == 2 && h[1] < v) as usize;
    assert!(seg.position(v) == if present { Some((v - s) as usize - holes_below) } else { None });
    assert!(seg.range() == Some(s..=(e - 1)));
    // plain range
    let (rs, re): (u64, u64) = (vnd::any(), vnd::any());
    vnd::assume(rs <= re);
    let r = U64Segment::Range(rs..re);
    let i: usize = vnd::any();
    assert!(r.len() as u64 == re - rs);
    assert!(r.contains(v) == (v >= rs && v < re));
    assert!(r.position(v) == if v >= rs && v < re { Some((v - rs) as usize) } else { None });
    assert!(r.get(i) == if (i as u64) < re - rs { Some(rs + i as u64) } else { None });
    assert!(r.range().is_none() == (rs == re));
});

// @harness props=C34 tier=quick timeout=900 desc="U64Segment::RangeWithBitmap (<=8 slots): len/contains/position agree with the expanded list"
harness!(segment_bitmap, 10, {
    segment_bitmap_case(8);
});

// @harness props=C34 tier=thorough timeout=1800 desc="U64Segment::RangeWithBitmap (<=16 slots, two bytes)"
harness!(segment_bitmap_16, 18, {
    segment_bitmap_case(16);
});

fn segment_bitmap_case(bits: usize) {
    let b = any_bitmap(bits);
    let n = b.len();
    vnd::assume(n >= 1);
    let s: u64 = vnd::any();
    vnd::assume(s <= u64::MAX - 16);
    let seg = U64Segment::RangeWithBitmap { range: s..(s + n as u64), bitmap: b.clone() };
    let v: u64 = vnd::any();
    let inr = v >= s && v < s + n as u64;
    let present = inr && b.get((v - s) as usize);
    let mut below = 0usize;
    let mut total = 0usize;
    let mut k = 0;
    while k < bits {
        if k < n && b.get(k) {
            total += 1;
            if inr && (k as u64) < v - s {
                below += 1;
            }
        }
        k += 1;
    }
    vnd::cover!(present && below == 2, "third present value");
    assert!(seg.len() == total);
    assert!(seg.contains(v) == present);
    assert!(seg.position(v) == if present { Some(below) } else { None });
}

// @harness props=C34 tier=quick timeout=900 desc="U64Segment::SortedArray/Array (<=3 values): len/contains/position/get/range agree with the list"
harness!(segment_arrays, 9, {
    let v: u64 = vnd::any();
    let (vals, m) = any_values();
    vnd::assume(m >= 1);
    let arr = U64Segment::Array(EncodedU64Array::from(to_vec(&vals, m)));
    let i: usize = vnd::any();
    let has = (vals[0] == v) || (m > 1 && vals[1] == v) || (m > 2 && vals[2] == v);
    vnd::cover!(has && m == 3 && vals[2] == v && vals[0] != v, "found in last position");
    assert!(arr.len() == m && arr.contains(v) == has);
    assert!(arr.get(i) == if i < m { Some(vals[i]) } else { None });
    match arr.position(v) {
        Some(p) => assert!(p < m && vals[p] == v && (p == 0 || vals[0] != v) && (p < 2 || vals[1] != v)),
        None => assert!(!has),
    }
    if (m < 2 || vals[0] < vals[1]) && (m < 3 || vals[1] < vals[2]) {
        let sa = U64Segment::SortedArray(EncodedU64Array::from(to_vec(&vals, m)));
        assert!(sa.contains(v) == has);
        assert!(sa.position(v).map(|p| vals[p] == v).unwrap_or(!has));
        assert!(sa.range() == Some(vals[0]..=vals[m - 1]));
    }
});
