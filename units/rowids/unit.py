"""ROWIDS: the row-id sequence leaf encodings of lance-table/src/rowids: bitmap.rs, encoded_array.rs,
segment.rs (whole files up to their tests)."""
import os
import re
from vf import extract as X

D = "rust/lance-table/src/rowids/"
BM, EA, SG = D + "bitmap.rs", D + "encoded_array.rs", D + "segment.rs"
RS = "rust/lance-table/src/rowids.rs"

UNIT = dict(
    engine="kani-transplant",
    deps='vstd = { path = "/verif/models/vstd" }',
    encoded={BM: ["whole file up to #[cfg(test)]"], EA: ["whole file up to #[cfg(test)]"],
             SG: ["whole file up to #[cfg(test)] except the DeepSizeOf impl"],
             RS: ["struct RowIdSequence", "RowIdSequence::{new, len, is_empty, extend, get}"]},
    models=["Vec<u8>/Vec<u16>/Vec<u32>/Vec<u64>/Vec<bool> -> vstd::cvec fixed-capacity contiguous vector (capacity 4; derefs to a real slice, so binary_search/iter/first/last are the real core code; sort_unstable -> insertion sort)",
            "vec![x; n] -> Vec::verif_filled(x, n); slice.to_vec() -> iter().copied().collect() (allocation only)",
            "Vec<U64Segment> (the segment list of a RowIdSequence) -> vstd::vec fixed-capacity vector (4 segments)",
            "lance_core::Error -> unit-like error (format!/location! payload dropped); deepsize derive/impl removed"],
    bounds={"arrays": "<= 3 symbolic elements (capacity 4), arbitrary u64 bases and offsets", "bitmaps": "<= 32 bits (4 bytes)",
            "segments": "pre-states built directly: Range (any), RangeWithHoles (<=2 holes), RangeWithBitmap (<=16 slots), SortedArray/Array (<=3 values)",
            "unwind": 9},
    outside=["U64Segment::get on RangeWithHoles / RangeWithBitmap (`self.iter().nth(i)` over a boxed filter iterator: did not finish in 900 s even for 4 ids)", "bitmaps longer than 32 bits (BitmapSlice::count_ones middle-byte loop beyond 2 bytes)", "U64Segment::delete/mask/slice and from_slice on symbolic input beyond 3 values", "RowIdSequence::delete/mask/slice/select/rechunk_sequences and RowIdIndex (index.rs: decompose_sequence, rangemap, Arc): nested Vec + boxed iterators + float size estimates did not fit"],
)

ERR = """#[derive(Debug, PartialEq)]
pub enum Error { InvalidInput }
impl Error {
    pub fn invalid_input<S>(_s: S, _l: ()) -> Self { Self::InvalidInput }
}
pub type Result<T> = std::result::Result<T, Error>;
#[macro_export]
macro_rules! location { () => { () }; }
"""


def _common(src, subs, what):
    src = X.strip_tests(src)
    src = src.replace("use deepsize::DeepSizeOf;\n", "")
    src = re.sub(r", DeepSizeOf\)\]", ")]", src)
    n_vec = len(re.findall(r"\bvec!\[", src))
    if n_vec:
        src = subs.rx(src, r"\bvec!\[([^;\]]+); ([^\]]+)\]", r"Vec::verif_filled(\1, \2)", count=n_vec, why=f"{what}: vec![x; n] -> model constructor")
    n_tv = src.count(".to_vec()")
    if n_tv:
        src = subs.lit(src, ".to_vec()", ".iter().copied().collect::<Vec<_>>()", count=n_tv, why=f"{what}: allocation of a copy")
    return "use vstd::cvec::Vec;\n" + src


def build(repo, subs):
    bm = _common(repo.read(BM), subs, "bitmap.rs")
    ea = _common(repo.read(EA), subs, "encoded_array.rs")
    sg = _common(repo.read(SG), subs, "segment.rs")
    sg = X.remove_item(sg, r"^impl DeepSizeOf for U64Segment\b")
    sg = subs.lit(sg, "use snafu::location;\n", "use crate::location;\n", why="location!() -> ()")
    sg = subs.lit(sg, "use super::{bitmap::Bitmap, encoded_array::EncodedU64Array};", "use crate::{bitmap::Bitmap, encoded_array::EncodedU64Array};", why="module path")
    n_lc = sg.count("lance_core::")
    sg = subs.lit(sg, "lance_core::", "crate::lance_core::", count=n_lc, why="unit-like Error")
    # RowIdSequence: the struct and its len / is_empty / extend / get
    rs = X.strip_tests(repo.read(RS))
    impl = X.extract_item(rs, r"^impl RowIdSequence \{")
    fns = [X.extract_item(impl, r"^\s*pub fn %s\b" % n) for n in ("new", "len", "is_empty", "extend", "get")]
    st = X.extract_item(rs, r"^pub struct RowIdSequence\b")
    st = subs.lit(st, "#[derive(Debug, Clone, DeepSizeOf, PartialEq, Eq, Default)]", "#[derive(Debug, Clone, PartialEq, Eq, Default)]", why="deepsize derive is bookkeeping")
    st = subs.lit(st, "pub struct RowIdSequence(Vec<U64Segment>);", "pub struct RowIdSequence(pub Vec<U64Segment>);", why="visibility: the harness builds sequences directly")
    seq = "use vstd::vec::Vec;\nuse crate::segment::U64Segment;\n\n" + st + "\n\nimpl RowIdSequence {\n" + "\n\n".join(fns) + "\n}\n"
    lib = ("#![allow(dead_code, unused_imports, unused_variables, unused_mut, clippy::all)]\n"
           "pub mod lance_core {\n" + ERR + "}\npub mod bitmap;\npub mod encoded_array;\npub mod segment;\npub mod rowseq;\npub mod harness;\n")
    return {"src/lib.rs": lib, "src/bitmap.rs": bm, "src/encoded_array.rs": ea, "src/segment.rs": sg, "src/rowseq.rs": seq}
