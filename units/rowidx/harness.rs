//! C34/C15 harnesses on the sequence level (segments are the list model).
use crate::address::RowAddress;
use crate::env::{DeletionVector, U64Segment};
use crate::rowids::*;
use std::sync::Arc;
use vnd::harness;
use vstd::cvec::Vec;

/// an arbitrary segment of <=2 ids: a Range (len <= 2, any start) or a 2-element list
fn any_segment() -> U64Segment {
    if vnd::any::<bool>() {
        let (s, l): (u64, u64) = (vnd::any(), vnd::any());
        vnd::assume(l <= 2 && s <= u64::MAX - 2);
        U64Segment::Range(s..s + l)
    } else {
        let mut v = Vec::new();
        let n: usize = vnd::any();
        vnd::assume(n <= 2);
        if n >= 1 {
            v.push(vnd::any());
        }
        if n >= 2 {
            v.push(vnd::any());
        }
        U64Segment::List(v)
    }
}

fn any_sequence() -> RowIdSequence {
    let mut s = RowIdSequence::new();
    let n: usize = vnd::any();
    vnd::assume(n <= 2);
    if n >= 1 {
        s.0.push(any_segment());
    }
    if n >= 2 {
        s.0.push(any_segment());
    }
    s
}

// @harness props=C34 tier=thorough timeout=1800 desc="RowIdSequence::extend: the result lists the ids of self followed by the ids of other, in that order (adjacent ranges may be fused, never reordered); len adds up"
harness!(sequence_extend_order, 6, {
    let (a, b) = (any_sequence(), any_sequence());
    let (la, lb) = (a.len(), b.len());
    let i: usize = vnd::any();
    vnd::assume(i < 16);
    let expect = if (i as u64) < la { a.get(i) } else { b.get(i - la as usize) };
    let mut c = a.clone();
    c.extend(b.clone());
    vnd::cover!(c.0.len() == 2 && a.0.len() == 2 && b.0.len() == 1 && la + lb == 6, "trailing and leading ranges fused");
    assert!(c.len() == la + lb);
    assert!(c.get(i) == expect);
});

// @harness props=C34,C15 tier=thorough timeout=900 desc="(attempted; symbolic execution of the nested iterator chain did not finish in 900 s) decompose_sequence: the chunks pair exactly the non-deleted rows of the fragment, row id -> (fragment, physical offset), whatever is deleted (also whole segments); coverage = min..=max of the chunk's ids"
harness!(decompose_pairs_live_rows, 6, {
    // two range segments of <=2 ids each
    let mut seq = RowIdSequence::new();
    let (s1, l1, s2, l2): (u64, u64, u64, u64) = (vnd::any(), vnd::any(), vnd::any(), vnd::any());
    vnd::assume(l1 <= 2 && l2 <= 2 && s1 <= u64::MAX - 2 && s2 <= u64::MAX - 2);
    seq.0.push(U64Segment::Range(s1..s1 + l1));
    seq.0.push(U64Segment::Range(s2..s2 + l2));
    let frag: u32 = vnd::any();
    let dv = DeletionVector { offs: vnd::any(), n: { let n: usize = vnd::any(); vnd::assume(n <= 3); n } };
    let total = seq.len();
    let idx = FragmentRowIdIndex { fragment_id: frag, row_id_sequence: Arc::new(seq.clone()), deletion_vector: Arc::new(dv.clone()) };
    let chunks = decompose_sequence(&idx);
    // pick an arbitrary physical row of the fragment
    let off: usize = vnd::any();
    vnd::assume((off as u64) < total);
    let rid = seq.get(off).unwrap();
    let deleted = dv.contains(off as u32);
    let want_addr = u64::from(RowAddress::new_from_parts(frag, off as u32));
    // is (rid, want_addr) among the pairs?  count how many pairs there are in total, too
    let mut found = false;
    let mut pairs = 0u64;
    for (coverage, (ids, addrs)) in chunks.iter() {
        assert!(ids.len() == addrs.len() && ids.len() > 0);
        assert!(Some(coverage.clone()) == ids.range());
        let mut k = 0;
        while k < 4 {
            if k < ids.len() {
                pairs += 1;
                if addrs.get(k) == Some(want_addr) {
                    // an address occurs once and carries the id stored at that physical row
                    assert!(!found);
                    assert!(ids.get(k) == Some(rid));
                    found = true;
                }
            }
            k += 1;
        }
    }
    let mut live = 0u64;
    let mut o = 0u64;
    while o < 4 {
        if o < total && !dv.contains(o as u32) {
            live += 1;
        }
        o += 1;
    }
    vnd::cover!(total == 4 && live == 2 && chunks.len() == 1, "a fully deleted first segment");
    assert!(found == !deleted);
    assert!(pairs == live);
    core::mem::forget(idx);
});
