//! List model of `U64Segment` and a small set model of `DeletionVector`.
use core::ops::{Range, RangeInclusive};
use vstd::cvec::Vec;

#[derive(Debug, Clone, PartialEq, Eq)]
pub enum U64Segment {
    Range(Range<u64>),
    List(Vec<u64>),
}
impl Default for U64Segment {
    fn default() -> Self {
        Self::Range(0..0)
    }
}

pub struct SegIter {
    seg: U64Segment,
    i: usize,
}
impl Iterator for SegIter {
    type Item = u64;
    fn next(&mut self) -> Option<u64> {
        let r = self.seg.get(self.i);
        if r.is_some() {
            self.i += 1;
        }
        r
    }
}

impl U64Segment {
    pub fn len(&self) -> usize {
        match self {
            Self::Range(r) => {
                if r.end > r.start {
                    (r.end - r.start) as usize
                } else {
                    0
                }
            }
            Self::List(v) => v.len(),
        }
    }
    pub fn is_empty(&self) -> bool {
        self.len() == 0
    }
    pub fn get(&self, i: usize) -> Option<u64> {
        match self {
            Self::Range(r) => {
                if i < self.len() {
                    Some(r.start + i as u64)
                } else {
                    None
                }
            }
            Self::List(v) => {
                if i < v.len() {
                    Some(v[i])
                } else {
                    None
                }
            }
        }
    }
    pub fn iter(&self) -> SegIter {
        SegIter { seg: self.clone(), i: 0 }
    }
    /// min..=max of the ids, None if empty
    pub fn range(&self) -> Option<RangeInclusive<u64>> {
        let n = self.len();
        if n == 0 {
            return None;
        }
        let mut lo = self.get(0).unwrap();
        let mut hi = lo;
        let mut i = 1;
        while i < vstd::cvec::CCAP {
            if i < n {
                let x = self.get(i).unwrap();
                if x < lo {
                    lo = x;
                }
                if x > hi {
                    hi = x;
                }
            }
            i += 1;
        }
        Some(lo..=hi)
    }
}
impl FromIterator<u64> for U64Segment {
    fn from_iter<I: IntoIterator<Item = u64>>(iter: I) -> Self {
        Self::List(iter.into_iter().collect())
    }
}

/// deleted row offsets of a fragment
#[derive(Debug, Clone, Default)]
pub struct DeletionVector {
    pub offs: [u32; 3],
    pub n: usize,
}
impl DeletionVector {
    pub fn contains(&self, o: u32) -> bool {
        (self.n > 0 && self.offs[0] == o) || (self.n > 1 && self.offs[1] == o) || (self.n > 2 && self.offs[2] == o)
    }
}
