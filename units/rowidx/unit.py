"""ROWIDX: sequence-level bookkeeping of the row-id structures with the segment type replaced by a
list model: `RowIdSequence::{len, get, extend}` (lance-table/src/rowids.rs) and `decompose_sequence`
(lance-table/src/rowids/index.rs), the function that pairs every live row id of a fragment with its
address for the RowIdIndex."""
import os
from vf import extract as X

RS = "rust/lance-table/src/rowids.rs"
IX = "rust/lance-table/src/rowids/index.rs"
ADDR = "rust/lance-core/src/utils/address.rs"

UNIT = dict(
    engine="kani-transplant",
    deps='vstd = { path = "/verif/models/vstd" }',
    encoded={RS: ["struct RowIdSequence", "RowIdSequence::{new, len, is_empty, extend, get}"],
             IX: ["struct FragmentRowIdIndex", "fn decompose_sequence"], ADDR: ["whole file"]},
    models=["U64Segment -> two-variant list model: Range(Range<u64>) (the variant `extend` matches on) and List(<=4 ids); len/get/iter/range/from_iter by definition; what the real encodings do is decided under C34 (layering)",
            "DeletionVector -> a set of <=3 deleted offsets (only `contains` is called)", "Vec -> vstd::cvec (4 elements); Arc: std"],
    bounds={"sequence": "<=2 segments of <=2 ids each (arbitrary u64 ids / ranges)", "deletions": "<=3 arbitrary deleted offsets", "fragment id": "arbitrary u32"},
    outside=["RowIdIndex::new's merging of overlapping chunks (rangemap) and RowIdIndex::get", "the real U64Segment encodings (C34)"],
)

ENV = open(os.path.join(os.path.dirname(__file__), "env.rs")).read()


def build(repo, subs):
    rs = X.strip_tests(repo.read(RS))
    ix = X.strip_tests(repo.read(IX))
    addr = X.strip_tests(repo.read(ADDR))
    impl = X.extract_item(rs, r"^impl RowIdSequence \{")
    fns = [X.extract_item(impl, r"^\s*pub fn %s\b" % n) for n in ("new", "len", "is_empty", "extend", "get")]
    st = X.extract_item(rs, r"^pub struct RowIdSequence\b")
    st = subs.lit(st, "#[derive(Debug, Clone, DeepSizeOf, PartialEq, Eq, Default)]", "#[derive(Debug, Clone, PartialEq, Eq, Default)]", why="deepsize derive is bookkeeping")
    st = subs.lit(st, "pub struct RowIdSequence(Vec<U64Segment>);", "pub struct RowIdSequence(pub Vec<U64Segment>);", why="visibility")
    fidx = X.extract_item(ix, r"^pub struct FragmentRowIdIndex\b")
    dec = X.extract_item(ix, r"^fn decompose_sequence\b")
    dec = subs.lit(dec, "fn decompose_sequence(", "pub fn decompose_sequence(", why="visibility")
    dec = subs.lit(dec, ") -> Vec<(RangeInclusive<u64>, (U64Segment, U64Segment))> {", ") -> vstd::vec::Vec<(RangeInclusive<u64>, (U64Segment, U64Segment))> {",
                   why="result vector -> Option-slot vector model (RangeInclusive has no Default)")
    body = ("use std::ops::RangeInclusive;\nuse std::sync::Arc;\nuse vstd::cvec::Vec;\nuse crate::address::RowAddress;\nuse crate::env::{DeletionVector, U64Segment};\n\n"
            + st + "\n\nimpl RowIdSequence {\n" + "\n\n".join(fns) + "\n}\n\n" + fidx + "\n\n" + dec + "\n")
    lib = ("#![allow(dead_code, unused_imports, unused_variables, unused_mut, clippy::all)]\n"
           "pub mod address;\npub mod env;\npub mod rowids;\npub mod harness;\n")
    return {"src/lib.rs": lib, "src/address.rs": addr, "src/rowids.rs": body, "src/env.rs": ENV}
