//! C30 harness: large-range chunking in LanceEncodingsIo returns each requested range's bytes.
use crate::io::submit_request_sync;
use core::ops::Range;
use vnd::harness;
use vstd::cvec::Vec;

// @harness props=C30 tier=quick timeout=900 desc="<=2 requested ranges of offsets < 2^16, any read_chunk_size >= 1: one buffer per range, in order, holding that range (chunks cover the range exactly, remainder included)"
harness!(chunk_and_reassemble, 6, {
    let n: usize = vnd::any();
    vnd::assume(n <= 2);
    let s: [u16; 2] = vnd::any();
    let e: [u16; 2] = vnd::any();
    vnd::assume(s[0] <= e[0] && s[1] <= e[1]);
    let ranges: [Range<u64>; 2] = [s[0] as u64..e[0] as u64, s[1] as u64..e[1] as u64];
    let chunk = vnd::any::<u16>() as u64;
    vnd::assume(chunk >= 1);
    let mut req = Vec::new();
    let mut i = 0;
    while i < 2 {
        if i < n {
            req.push(ranges[i].clone());
        }
        i += 1;
    }
    let out = submit_request_sync(req, chunk);
    match out {
        Ok(bufs) => {
            vnd::cover!(n == 2 && (ranges[0].end - ranges[0].start) > 2 * chunk && (ranges[0].end - ranges[0].start) % 3 != 0, "a range split into three chunks with a remainder");
            assert!(bufs.len() == n);
            let mut j = 0;
            while j < 2 {
                if j < n {
                    assert!(bufs[j].verif_is_file_range(ranges[j].start, ranges[j].end));
                }
                j += 1;
            }
        }
        Err(_) => assert!(false),
    }
});
