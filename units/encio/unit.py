"""ENCIO: the chunking and reassembly of `LanceEncodingsIo::submit_request` (lance-file/src/io.rs):
ranges larger than read_chunk_size are split into chunks, read through the file scheduler and glued
back together.  Lifted verbatim into a synchronous function; the scheduler call becomes `fetch`
(one buffer per range holding that range -- what unit `sched` establishes for the real scheduler)."""
import os
import re
from vf import extract as X

F = "rust/lance-file/src/io.rs"
SCHED_ENV = os.path.join(os.path.dirname(__file__), "..", "sched", "env.rs")

UNIT = dict(
    engine="kani-transplant",
    deps='vstd = { path = "/verif/models/vstd" }',
    encoded={F: ["LanceEncodingsIo::submit_request: split loop, fast path, reassembly (body of the async block)"]},
    models=["Vec -> vstd::cvec fixed-capacity contiguous vector; vec![Vec::new(); n] -> Vec::verif_filled",
            "bytes::Bytes -> the contiguous file range a buffer holds, or a sticky `bad` mark (as in unit sched)",
            "self.scheduler.submit_request(..).await -> fetch(): one buffer per range holding exactly that range (the contract unit sched decides for FileScheduler)"],
    bounds={"requests": "k <= 2 requested ranges with start <= end, offsets < 2^16, read_chunk_size >= 1 below 2^16", "chunks": "<= 4 planned reads (vector capacity; more is a model bound)"},
    outside=["priority", "the scheduler itself (unit sched) and its I/O queue"],
)

ENV = open(SCHED_ENV).read()


def build(repo, subs):
    src = X.strip_tests(repo.read(F))
    impl = X.extract_item(src, r"^impl EncodingsIo for LanceEncodingsIo \{")
    fn = X.extract_item(impl, r"^\s*fn submit_request\b")
    m1 = re.search(r"^\s*let mut split_ranges = Vec::new\(\);\n", fn, re.M)
    m2 = re.search(r"^\s*let fut = self\.scheduler\.submit_request\(split_ranges, priority\);\n", fn, re.M)
    m3 = re.search(r"^\s*async move \{\n\s*let split_results = fut\.await\?;\n", fn, re.M)
    m4 = re.search(r"^\s*\}\n\s*\.boxed\(\)\n", fn, re.M)
    if not (m1 and m2 and m3 and m4 and m1.start() < m2.start() < m3.start() < m4.start()):
        raise X.Inconclusive("LanceEncodingsIo::submit_request no longer has the expected split / await / reassembly structure")
    if fn[m2.end():m3.start()].strip():
        raise X.Inconclusive("unexpected code between the split loop and the await")
    split = fn[m1.start():m2.start()]
    tail = fn[m3.end():m4.start()]
    split = subs.lit(split, "self.read_chunk_size", "read_chunk_size", count=2, why="field -> parameter")
    tail = subs.lit(tail, "vec![Vec::new(); ranges.len()]", "Vec::verif_filled(Vec::new(), ranges.len())", why="vec! -> model constructor")
    tail = subs.lit(tail, "let mut combined = Vec::with_capacity(total_size);", "let mut combined = crate::env::RunBuf::with_capacity(total_size);", why="Vec<u8> copy buffer -> run list")
    tail = subs.lit(tail, "bytes::Bytes::from(combined)", "Bytes::from(combined)", why="Bytes model")
    tail = subs.lit(tail, "return Ok(split_results);", "return Ok::<Vec<Bytes>, ()>(split_results);", why="error type of the lifted function")
    body = f"""use vstd::cvec::Vec;
use crate::env::{{fetch, Bytes}};

/// split + reassembly of `LanceEncodingsIo::submit_request`, lifted verbatim (see unit.py)
pub fn submit_request_sync(ranges: Vec<std::ops::Range<u64>>, read_chunk_size: u64) -> Result<Vec<Bytes>, ()> {{
{split}
    let split_results = fetch(&split_ranges);
{tail}
}}
"""
    lib = ("#![allow(dead_code, unused_imports, unused_variables, unused_mut, clippy::all)]\n"
           "pub mod env;\npub mod io;\npub mod harness;\n")
    return {"src/lib.rs": lib, "src/io.rs": body, "src/env.rs": ENV}
