//! Set model of `RowIdTreeMap` for the L2 queries (see unit.py).
use crate::address::RowAddress;

/// Size of the universe that `row_ids()` iterates (membership tests use all 8 bits).
#[cfg(not(any(verif_u3, verif_u2)))]
pub const UNIV: u64 = 8;
#[cfg(verif_u3)]
pub const UNIV: u64 = 3;
#[cfg(verif_u2)]
pub const UNIV: u64 = 2;

#[derive(Clone, Copy, Debug, Default, PartialEq)]
pub struct RowIdTreeMap {
    pub bits: u8,
    /// ghost: the real map holds a full-fragment marker, so its size is unknown
    pub has_full: bool,
}

impl RowIdTreeMap {
    pub fn new() -> Self {
        Self::default()
    }
    pub fn verif_any() -> Self {
        let bits: u8 = vnd::any();
        vnd::assume(UNIV >= 8 || (bits as u64) < (1 << UNIV));
        Self { bits, has_full: vnd::any() }
    }
    pub fn is_empty(&self) -> bool {
        self.bits == 0 && !self.has_full
    }
    pub fn contains(&self, v: u64) -> bool {
        v < 8 && (self.bits >> v) & 1 == 1
    }
    pub fn len(&self) -> Option<u64> {
        if self.has_full {
            None
        } else {
            Some(self.bits.count_ones() as u64)
        }
    }
    pub fn row_ids(&self) -> Option<RowIdsIter> {
        if self.has_full {
            None
        } else {
            Some(RowIdsIter { bits: self.bits, i: 0 })
        }
    }
}

/// Ascending iteration over the model's members (a plain struct: iterator adapters are costly in CBMC).
pub struct RowIdsIter {
    bits: u8,
    i: u64,
}

impl Iterator for RowIdsIter {
    type Item = RowAddress;
    fn next(&mut self) -> Option<RowAddress> {
        // loop-free: lowest member >= i
        if self.i >= UNIV {
            return None;
        }
        let rest = (self.bits as u64 & ((1u64 << UNIV) - 1)) >> self.i;
        if rest == 0 {
            self.i = UNIV;
            return None;
        }
        let v = self.i + rest.trailing_zeros() as u64;
        self.i = v + 1;
        Some(RowAddress::from(v))
    }
}

impl std::ops::BitOr<Self> for RowIdTreeMap {
    type Output = Self;
    fn bitor(self, rhs: Self) -> Self {
        Self { bits: self.bits | rhs.bits, has_full: self.has_full || rhs.has_full }
    }
}
impl std::ops::BitOrAssign<Self> for RowIdTreeMap {
    fn bitor_assign(&mut self, rhs: Self) {
        *self = *self | rhs;
    }
}
impl std::ops::BitAnd<Self> for RowIdTreeMap {
    type Output = Self;
    fn bitand(self, rhs: Self) -> Self {
        let bits = self.bits & rhs.bits;
        // a full marker survives only if both sides have one on the same fragment: unknown here
        Self { bits, has_full: self.has_full && rhs.has_full && vnd::any::<bool>() }
    }
}
impl std::ops::BitAndAssign<&Self> for RowIdTreeMap {
    fn bitand_assign(&mut self, rhs: &Self) {
        *self = *self & *rhs;
    }
}
impl std::ops::SubAssign<&Self> for RowIdTreeMap {
    fn sub_assign(&mut self, rhs: &Self) {
        self.bits &= !rhs.bits;
        self.has_full = self.has_full && vnd::any::<bool>();
    }
}
impl std::ops::Sub<Self> for RowIdTreeMap {
    type Output = Self;
    fn sub(mut self, rhs: Self) -> Self {
        self -= &rhs;
        self
    }
}
