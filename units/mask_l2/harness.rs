//! MASK-L2 harnesses: allow/block-list algebra of the real `RowIdMask`.
use crate::mask::RowIdMask;
use crate::treemap_model::RowIdTreeMap;
use vnd::harness;

fn any_opt_set() -> Option<RowIdTreeMap> {
    if vnd::any::<bool>() {
        Some(RowIdTreeMap::verif_any())
    } else {
        None
    }
}

fn any_mask() -> RowIdMask {
    RowIdMask { allow_list: any_opt_set(), block_list: any_opt_set() }
}

/// The documented meaning of a mask (doc comment of `RowIdMask`), written independently.
fn spec_selected(m: &RowIdMask, x: u64) -> bool {
    let allowed = match &m.allow_list {
        None => true,
        Some(a) => a.contains(x),
    };
    let blocked = match &m.block_list {
        None => false,
        Some(b) => b.contains(x),
    };
    allowed && !blocked
}

// @harness props=C21,C19 tier=quick timeout=300 desc="selected() follows the documented allow/block meaning"
harness!(selected_meaning, 10, {
    let m = any_mask();
    let x: u64 = vnd::any();
    vnd::cover!(m.allow_list.is_some() && m.block_list.is_some() && m.selected(x), "both lists, selected");
    assert!(m.selected(x) == spec_selected(&m, x));
});

// @harness props=C21,C19 tier=quick timeout=300 desc="!m selects exactly the rows m does not (complement), for every list shape"
harness!(not_complement, 10, {
    let m = any_mask();
    let x: u64 = vnd::any();
    let before = m.selected(x);
    let n = !m;
    vnd::cover!(before, "a selected row exists");
    vnd::cover!(!before, "an unselected row exists");
    assert!(n.selected(x) == !before);
});

// @harness props=C21,C19 tier=quick timeout=300 desc="a & b selects the intersection"
harness!(and_intersection, 10, {
    let a = any_mask();
    let b = any_mask();
    let x: u64 = vnd::any();
    let (sa, sb) = (a.selected(x), b.selected(x));
    let r = a & b;
    vnd::cover!(sa && sb, "row in both");
    assert!(r.selected(x) == (sa && sb));
});

// @harness props=C21,C19 tier=quick timeout=300 desc="a | b selects the union"
harness!(or_union, 10, {
    let a = any_mask();
    let b = any_mask();
    let x: u64 = vnd::any();
    let (sa, sb) = (a.selected(x), b.selected(x));
    let r = a | b;
    vnd::cover!(sa && !sb, "row only in lhs");
    vnd::cover!(!sa && !sb, "row in neither");
    assert!(r.selected(x) == (sa || sb));
});

// @harness props=C21 tier=quick timeout=300 desc="normalize keeps the selection and leaves no two-list mask"
harness!(normalize_equiv, 10, {
    let m = any_mask();
    let x: u64 = vnd::any();
    let before = m.selected(x);
    let both = m.allow_list.is_some() && m.block_list.is_some();
    let n = m.normalize();
    vnd::cover!(both && before, "two-list mask with a selected row");
    assert!(n.selected(x) == before);
    assert!(!(n.allow_list.is_some() && n.block_list.is_some()));
});

// @harness props=C21 tier=quick timeout=300 desc="also_block / also_allow add ids to the respective list"
harness!(also_block_allow, 10, {
    let m = any_mask();
    let s = RowIdTreeMap::verif_any();
    let x: u64 = vnd::any();
    let sel = m.selected(x);
    let allowed = m.allow_list.map(|a| a.contains(x)).unwrap_or(true);
    let blocked = m.block_list.map(|b| b.contains(x)).unwrap_or(false);
    let had_allow = m.allow_list.is_some();
    let b = m.clone().also_block(s);
    vnd::cover!(sel && s.contains(x), "a selected row gets blocked");
    assert!(b.selected(x) == (sel && !s.contains(x)));
    let a = m.also_allow(s);
    vnd::cover!(!allowed && s.contains(x) && !blocked, "a new row gets allowed");
    assert!(a.selected(x) == ((allowed || s.contains(x)) && !blocked));
    assert!(a.allow_list.is_some() == had_allow);
});

// @harness props=C21 tier=quick timeout=300 desc="constructors: all_rows, allow_nothing, from_allowed, from_block"
harness!(constructors, 10, {
    let s = RowIdTreeMap::verif_any();
    let x: u64 = vnd::any();
    vnd::cover!(s.contains(x), "x in s");
    assert!(RowIdMask::all_rows().selected(x));
    assert!(!RowIdMask::allow_nothing().selected(x));
    assert!(RowIdMask::from_allowed(s).selected(x) == s.contains(x));
    assert!(RowIdMask::from_block(s).selected(x) == !s.contains(x));
    assert!(RowIdMask::default().selected(x));
});

// @harness props=C21 tier=quick timeout=300 desc="max_len is an upper bound on the number of selected rows"
harness!(max_len_upper_bound, 10, {
    let m = any_mask();
    let ml = m.max_len();
    let mut count = 0u64;
    let mut i = 0u64;
    while i < 8 {
        if m.selected(i) {
            count += 1;
        }
        i += 1;
    }
    vnd::cover!(ml == Some(3) && count == 2, "bound strictly above count");
    if let Some(n) = ml {
        assert!(count <= n);
    }
    assert!(ml.is_some() || m.allow_list.map(|a| a.has_full).unwrap_or(true));
});

fn iter_ids_case() {
    let m = any_mask();
    let x: u64 = vnd::any();
    vnd::assume(x < crate::treemap_model::UNIV);
    let sel = m.selected(x);
    let it = m.iter_ids();
    if let Some(it) = it {
        let mut seen = false;
        let mut prev: Option<u64> = None;
        let mut n = 0;
        for a in it {
            let a: u64 = a.into();
            if let Some(p) = prev {
                assert!(p < a);
            }
            prev = Some(a);
            assert!(m.selected(a));
            if a == x {
                seen = true;
            }
            n += 1;
        }
        vnd::cover!(n == 1 && m.block_list.is_some(), "an id survives a block list");
        assert!(seen == sel);
    } else {
        vnd::cover!(m.allow_list.is_some(), "no iteration although there is an allow list");
        let a_ok = m.allow_list.as_ref().map(|a| !a.has_full).unwrap_or(false);
        let b_ok = m.block_list.as_ref().map(|b| !b.has_full).unwrap_or(true);
        assert!(!(a_ok && b_ok));
    }
}

// @harness props=C21 tier=quick timeout=600 cfg=verif_u2 desc="iter_ids yields exactly the selected ids, ascending (universe of 2 ids)"
harness!(iter_ids_exact_u2, 4, {
    iter_ids_case();
});

// @harness props=C21 tier=thorough timeout=1800 cfg=verif_u3 desc="iter_ids yields exactly the selected ids, ascending (universe of 3 ids: two blocked ids before an allowed one)"
harness!(iter_ids_exact_u3, 5, {
    iter_ids_case();
});

// @harness props=C21 tier=quick timeout=600 desc="selected_indices returns the positions of the selected ids"
harness!(selected_indices_exact, 6, {
    let m = any_mask();
    vnd::assume(m.allow_list.is_some() || m.block_list.is_some());
    let ids: [u64; 3] = vnd::any();
    let out = m.selected_indices(ids.iter());
    let mut k = 0usize;
    let mut i = 0usize;
    while i < 3 {
        if m.selected(ids[i]) {
            assert!(k < out.len() && out[k] == i as u64);
            k += 1;
        }
        i += 1;
    }
    vnd::cover!(k == 2, "two of three selected");
    assert!(k == out.len());
    core::mem::forget(out);
});
