"""MASK-L2: the real `RowIdMask` (struct, methods, `!`, `&`, `|`) from lance-core/src/utils/mask.rs,
compiled against a *set model* of `RowIdTreeMap` (an 8-element universe bitset): decides the
allow/block-list algebra.  L1 (units/mask_l1) decides that the real `RowIdTreeMap` refines a set."""
import os
from vf import extract as X

MASK = "rust/lance-core/src/utils/mask.rs"
ADDR = "rust/lance-core/src/utils/address.rs"

METHODS = ["all_rows", "allow_nothing", "from_allowed", "from_block", "normalize", "selected",
           "selected_indices", "also_block", "also_allow", "max_len", "iter_ids"]

UNIT = dict(
    engine="kani-transplant",
    deps="",
    encoded={MASK: ["struct RowIdMask", "impl RowIdMask::{" + ",".join(METHODS) + "}",
                    "impl Not for RowIdMask", "impl BitAnd for RowIdMask", "impl BitOr for RowIdMask"],
             ADDR: ["whole file"]},
    models=["RowIdTreeMap -> set model over an 8-element universe of row ids {0..7} (u8 bitset) with a ghost "
            "'contains a full-fragment marker' flag that only makes len()/row_ids() return None; set operators "
            "|, &, -= are exact; what the real RowIdTreeMap does is decided separately by mask_l1"],
    bounds={"universe": "8 row ids; laws of RowIdMask are parametric in the set implementation, membership "
                        "patterns of <=4 operand sets are covered", "unwind": 10},
    outside=["into_arrow/from_arrow (Arrow framing)"],
)

ENV = open(os.path.join(os.path.dirname(__file__), "env.rs")).read()


def build(repo, subs):
    src = X.strip_tests(repo.read(MASK))
    addr = X.strip_tests(repo.read(ADDR))
    st = X.extract_item(src, r"^pub struct RowIdMask\b")
    st = subs.lit(st, "#[derive(Clone, Debug, Default, DeepSizeOf)]", "#[derive(Clone, Debug, Default)]",
                  why="deepsize derive is bookkeeping, not semantics")
    impl = X.extract_item(src, r"^impl RowIdMask \{")
    fns = [X.extract_item(impl, r"^\s*pub fn %s\b" % m) for m in METHODS]
    ops = [X.extract_item(src, r"^impl std::ops::%s for RowIdMask \{" % t) for t in ("Not", "BitAnd", "BitOr")]
    mask = ("use crate::treemap_model::RowIdTreeMap;\nuse crate::address::RowAddress;\nuse std::iter;\n\n"
            + st + "\n\nimpl RowIdMask {\n" + "\n\n".join(fns) + "\n}\n\n" + "\n\n".join(ops) + "\n")
    lib = ("#![allow(dead_code, unused_imports, unused_variables, unused_mut, clippy::all)]\n"
           "pub mod address;\npub mod treemap_model;\npub mod mask;\npub mod harness;\n")
    return {"src/lib.rs": lib, "src/address.rs": addr, "src/mask.rs": mask, "src/treemap_model.rs": ENV}
