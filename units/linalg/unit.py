"""LINALG: the integer/comparison distance kernels of lance-linalg: hamming (distance/hamming.rs) and
argmin/argmax (kernels.rs).  Floating-point accumulation kernels (l2, cosine, dot) are not encoded."""
import os
from vf import extract as X

H = "rust/lance-linalg/src/distance/hamming.rs"
K = "rust/lance-linalg/src/kernels.rs"

UNIT = dict(
    engine="kani-transplant",
    deps='num-traits = "0.2"',
    lockfile="/repo/Cargo.lock",
    encoded={H: ["fn hamming", "fn hamming_autovec", "fn hamming_scalar"],
             K: ["fn argmax", "fn argmin", "fn argmin_value", "fn argmin_value_float", "fn argmin_value_float_with_bias", "fn argmin_value_opt", "fn argmin_opt"]},
    models=[],
    bounds={"hamming": "all pairs of byte vectors of the lengths 0, 1, 2, 63, 64, 65: tail only, one exact chunk, chunk + tail (127, 128, 129 attempted in the thorough tier, do not finish in 1800 s)",
            "argmin": "f32 arrays of length <=4 with every bit pattern (NaN, +-0, +-inf, subnormals); generic versions instantiated at f32 and u32",
            "unwind": "hamming length+2, argmin 6"},
    outside=["l2 / cosine / dot / norm_l2 and their SIMD and f16/bf16 paths (floating-point accumulation in a different order: 'within tolerance' is not decidable by CBMC at useful sizes; AVX/NEON intrinsics are not supported by Kani)",
             "Arrow batch wrappers", "kmeans compute_partitions"],
)


def build(repo, subs):
    h = X.strip_tests(repo.read(H))
    k = X.strip_tests(repo.read(K))
    hs = [X.extract_item(h, r"^pub fn hamming\b"), X.extract_item(h, r"^fn hamming_autovec\b"), X.extract_item(h, r"^pub fn hamming_scalar\b")]
    ks = [X.extract_item(k, r"^pub fn %s\b" % n) for n in
          ("argmax", "argmin", "argmin_value", "argmin_value_float", "argmin_value_float_with_bias", "argmin_value_opt", "argmin_opt")]
    body = ("use std::cmp::Ordering;\nuse num_traits::{Bounded, Float, Num};\n\n" + "\n\n".join(hs + ks) + "\n")
    lib = ("#![allow(dead_code, unused_imports, unused_variables, unused_mut, clippy::all)]\n"
           "pub mod kernels;\npub mod harness;\n")
    return {"src/lib.rs": lib, "src/kernels.rs": body}
