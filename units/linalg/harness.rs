//! C35 harnesses: hamming distance and argmin agree with their definitions.
use crate::kernels::*;
use vnd::harness;

fn hamming_case<const N: usize>() {
    let x: [u8; N] = vnd::any();
    let y: [u8; N] = vnd::any();
    let fast = hamming(&x, &y);
    let slow = hamming_scalar(&x, &y);
    let mut bits: u32 = 0;
    let mut i = 0;
    while i < N {
        bits += (x[i] ^ y[i]).count_ones();
        i += 1;
    }
    assert!(fast == slow);
    assert!(fast == bits as f32);
    assert!(fast as u32 == bits);
}

// @harness props=C35 tier=quick timeout=600 need_cover=0 desc="hamming = hamming_scalar = differing bits, all byte vectors of length 65 (one 64-byte chunk + tail)"
harness!(hamming_len_65, 67, {
    hamming_case::<65>();
});

// @harness props=C35 tier=quick timeout=600 need_cover=0 desc="same, length 64 (exactly one chunk, empty tail)"
harness!(hamming_len_64, 67, {
    hamming_case::<64>();
});

// @harness props=C35 tier=quick timeout=600 need_cover=0 desc="same, length 63 (tail only)"
harness!(hamming_len_63, 67, {
    hamming_case::<63>();
});

// @harness props=C35 tier=quick timeout=600 need_cover=0 desc="same, lengths 0, 1 and 2"
harness!(hamming_len_0_1_2, 5, {
    hamming_case::<0>();
    hamming_case::<1>();
    hamming_case::<2>();
});

// @harness props=C35 tier=thorough timeout=900 need_cover=0 desc="(attempted; did not finish in 1800 s) same, length 129 (two chunks + tail)"
harness!(hamming_len_129, 131, {
    hamming_case::<129>();
});

// @harness props=C35 tier=thorough timeout=900 need_cover=0 desc="(attempted; did not finish in 1800 s) same, length 128 and 127"
harness!(hamming_len_128_127, 131, {
    hamming_case::<128>();
    hamming_case::<127>();
});

fn is_min_of(arr: &[f32; 4], n: usize, idx: u32, v: f32) -> bool {
    // idx is in range, holds v, v is below infinity, no element is smaller, and idx is the first such
    let i = idx as usize;
    if !(i < n && arr[i] == v && v < f32::INFINITY) {
        return false;
    }
    let mut ok = true;
    let mut k = 0;
    while k < 4 {
        if k < n {
            if arr[k] < v {
                ok = false;
            }
            if k < i && arr[k] == v {
                ok = false;
            }
        }
        k += 1;
    }
    ok
}

// @harness props=C35 tier=quick timeout=600 desc="argmin_value_float / argmin over f32 arrays of length <=4 and every bit pattern: returns the first minimal non-NaN finite-or--inf element; None iff nothing is below +inf"
harness!(argmin_float, 6, {
    let arr: [f32; 4] = vnd::any();
    let n: usize = vnd::any();
    vnd::assume(n <= 4);
    let r = argmin_value_float(arr[..n].iter().copied());
    let mut any_below = false;
    let mut k = 0;
    while k < 4 {
        if k < n && arr[k] < f32::INFINITY {
            any_below = true;
        }
        k += 1;
    }
    vnd::cover!(n == 4 && arr[0].is_nan() && r.map(|(i, _)| i == 2).unwrap_or(false), "NaN first, minimum at index 2");
    match r {
        Some((i, v)) => assert!(is_min_of(&arr, n, i, v)),
        None => assert!(!any_below),
    }
    // the generic version (partial_cmp against T::max_value())
    let g = argmin_value(arr[..n].iter().copied());
    match g {
        Some((i, v)) => {
            let i = i as usize;
            assert!(i < n && arr[i] == v);
            let mut k = 0;
            while k < 4 {
                if k < n {
                    assert!(!(arr[k] < v));
                }
                k += 1;
            }
        }
        None => {
            // nothing is strictly below f32::MAX
            let mut k = 0;
            while k < 4 {
                if k < n {
                    assert!(!(arr[k] < f32::MAX));
                }
                k += 1;
            }
        }
    }
    assert!(argmin(arr[..n].iter().copied()) == g.map(|(i, _)| i));
});

// @harness props=C35 tier=quick timeout=600 desc="argmin_value_opt / argmin_opt / argmax over Option<u32> and u32 arrays of length <=4: a smallest (largest) present element, first occurrence"
harness!(argmin_int_opt, 6, {
    let arr: [u32; 4] = vnd::any();
    let present: [bool; 4] = vnd::any();
    let n: usize = vnd::any();
    vnd::assume(n <= 4);
    let r = argmin_value_opt((0..n).map(|i| if present[i] { Some(arr[i]) } else { None }));
    vnd::cover!(n == 4 && !present[0] && r.map(|(i, _)| i == 3).unwrap_or(false), "first absent, minimum last");
    match r {
        Some((i, v)) => {
            let i = i as usize;
            assert!(i < n && present[i] && arr[i] == v);
            let mut k = 0;
            while k < 4 {
                if k < n && present[k] {
                    assert!(arr[k] >= v);
                    assert!(!(k < i && arr[k] == v));
                }
                k += 1;
            }
        }
        None => {
            let mut k = 0;
            while k < 4 {
                if k < n && present[k] {
                    assert!(arr[k] == u32::MAX);
                }
                k += 1;
            }
        }
    }
    let m = argmax(arr[..n].iter().copied());
    match m {
        Some(i) => {
            let i = i as usize;
            assert!(i < n);
            let mut k = 0;
            while k < 4 {
                if k < n {
                    assert!(arr[k] <= arr[i]);
                }
                k += 1;
            }
        }
        None => {
            let mut k = 0;
            while k < 4 {
                if k < n {
                    assert!(arr[k] == 0);
                }
                k += 1;
            }
        }
    }
});

// @harness props=C35 tier=quick timeout=600 desc="argmin_value_float_with_bias: minimises value+bias and returns the original value at that index; without bias it is argmin_value_float"
harness!(argmin_with_bias, 6, {
    let arr: [f32; 3] = vnd::any();
    let bias: [f32; 3] = vnd::any();
    let r = argmin_value_float_with_bias(arr.iter().copied(), Some(bias.iter().copied()));
    vnd::cover!(r.map(|(i, _)| i == 1).unwrap_or(false) && arr[1] > arr[0], "bias changes the winner");
    match r {
        Some((i, v)) => {
            let i = i as usize;
            assert!(i < 3 && (v == arr[i] || (v.is_nan() && arr[i].is_nan())));
            let best = arr[i] + bias[i];
            let mut k = 0;
            while k < 3 {
                assert!(!(arr[k] + bias[k] < best));
                k += 1;
            }
        }
        None => {
            let mut k = 0;
            while k < 3 {
                assert!(!(arr[k] + bias[k] < f32::INFINITY));
                k += 1;
            }
        }
    }
    let none: Option<core::iter::Empty<f32>> = None;
    let a = argmin_value_float_with_bias(arr.iter().copied(), none);
    let b = argmin_value_float(arr.iter().copied());
    assert!(a.map(|(i, _)| i) == b.map(|(i, _)| i));
});
