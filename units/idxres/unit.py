"""IDXRES: the three `match` tables of `ScalarIndexExpr::evaluate` (lance-index/src/scalar/expression.rs)
that combine exact / at-most / at-least index answers under NOT, AND, OR.  `evaluate` is an
`async_recursion` fn over index I/O, so the tables are lifted *verbatim* into three synchronous
functions and compiled together with the real `RowIdMask` code (mask.rs) against the set model of
`RowIdTreeMap` used by MASK-L2."""
import os
import re
from vf import extract as X

EXPR = "rust/lance-index/src/scalar/expression.rs"
MASK = "rust/lance-core/src/utils/mask.rs"
ADDR = "rust/lance-core/src/utils/address.rs"
L2 = os.path.join(os.path.dirname(__file__), "..", "mask_l2")

UNIT = dict(
    engine="kani-transplant",
    deps="",
    encoded={EXPR: ["enum IndexExprResult", "IndexExprResult::{row_id_mask,discriminant,from_parts}",
                    "ScalarIndexExpr::evaluate: `match result {..}` (Not), `match (lhs_result?, rhs_result?) {..}` (And), (Or), "
                    "and the SearchResult -> IndexExprResult arms (Query)"],
             MASK: ["struct RowIdMask", "impl RowIdMask (as in mask_l2)", "impl Not/BitAnd/BitOr for RowIdMask"],
             ADDR: ["whole file"]},
    models=["RowIdTreeMap -> 8-element-universe set model (see mask_l2)",
            "the awaited sub-results (`inner.evaluate(..).await?`, `join!(..)`) -> symbolic IndexExprResult values that satisfy their own guarantee w.r.t. symbolic truth sets",
            "lance_core::Error -> unit-like error type; `location!()`/`format!` in from_parts' error arm removed with it"],
    bounds={"universe": "8 row ids, probe pointwise; guarantees are parametric in the universe", "unwind": 10,
            "depth": "one combination step from arbitrary sub-results (inductive over expression depth)"},
    outside=["index search itself (SearchResult producers)", "serialize_to_arrow"],
)


def build(repo, subs):
    import importlib.util
    spec = importlib.util.spec_from_file_location("unit_mask_l2_for_idxres", os.path.join(L2, "unit.py"))
    l2 = importlib.util.module_from_spec(spec)
    spec.loader.exec_module(l2)
    files = l2.build(repo, subs)
    files.pop("src/lib.rs")
    src = repo.read(EXPR)
    enum = X.extract_item(src, r"^pub enum IndexExprResult\b")
    impl = X.extract_item(src, r"^impl IndexExprResult \{")
    fns = [X.extract_item(impl, r"^\s*pub fn %s\b" % m) for m in ("row_id_mask", "discriminant", "from_parts")]
    fns[2] = subs.rx(fns[2], r"_ => Err\(Error::InvalidInput \{.*?\}\),", "_ => Err(Error::InvalidInput),",
                     why="error payload (format!/location!) is not part of the semantics", flags=re.S)
    ev = X.extract_item(src, r"^\s*pub async fn evaluate\b")
    _, not_tbl = X.extract_block_after(ev, r"Self::Not\(inner\) =>", r"match result \{")
    _, and_tbl = X.extract_block_after(ev, r"Self::And\(lhs, rhs\) =>", r"match \(lhs_result\?, rhs_result\?\) \{")
    _, or_tbl = X.extract_block_after(ev, r"Self::Or\(lhs, rhs\) =>", r"match \(lhs_result\?, rhs_result\?\) \{")
    _, q_tbl = X.extract_block_after(ev, r"Self::Query\(search\) =>", r"match search_result \{")
    expr = f"""use crate::mask::RowIdMask;
use crate::treemap_model::RowIdTreeMap;

#[derive(Debug)]
pub enum Error {{ InvalidInput }}
pub type Result<T> = std::result::Result<T, Error>;

pub enum SearchResult {{
    Exact(RowIdTreeMap),
    AtMost(RowIdTreeMap),
    AtLeast(RowIdTreeMap),
}}

{enum}

impl IndexExprResult {{
{chr(10).join(fns)}
}}

// ---- lifted verbatim from ScalarIndexExpr::evaluate ----
pub fn eval_not(result: IndexExprResult) -> Result<IndexExprResult> {{
    match result {{{not_tbl}}}
}}

pub fn eval_and(lhs_result: Result<IndexExprResult>, rhs_result: Result<IndexExprResult>) -> Result<IndexExprResult> {{
    match (lhs_result?, rhs_result?) {{{and_tbl}}}
}}

pub fn eval_or(lhs_result: Result<IndexExprResult>, rhs_result: Result<IndexExprResult>) -> Result<IndexExprResult> {{
    match (lhs_result?, rhs_result?) {{{or_tbl}}}
}}

pub fn eval_query(search_result: SearchResult) -> Result<IndexExprResult> {{
    match search_result {{{q_tbl}}}
}}
"""
    files["src/expr.rs"] = expr
    files["src/lib.rs"] = ("#![allow(dead_code, unused_imports, unused_variables, unused_mut, clippy::all)]\n"
                           "pub mod address;\npub mod treemap_model;\npub mod mask;\npub mod expr;\npub mod harness;\n")
    return files
