//! IDXRES harnesses: NOT/AND/OR keep the exact / at-most / at-least guarantees.
use crate::expr::{eval_and, eval_not, eval_or, eval_query, IndexExprResult, SearchResult};
use crate::mask::RowIdMask;
use crate::treemap_model::RowIdTreeMap;
use vnd::harness;

fn any_opt_set() -> Option<RowIdTreeMap> {
    if vnd::any::<bool>() {
        Some(RowIdTreeMap::verif_any())
    } else {
        None
    }
}

fn any_mask() -> RowIdMask {
    RowIdMask { allow_list: any_opt_set(), block_list: any_opt_set() }
}

fn any_result() -> IndexExprResult {
    let m = any_mask();
    let k: u8 = vnd::any();
    vnd::assume(k < 3);
    match k {
        0 => IndexExprResult::Exact(m),
        1 => IndexExprResult::AtMost(m),
        _ => IndexExprResult::AtLeast(m),
    }
}

/// The documented guarantee of a result w.r.t. the true answer `truth` at row `x`
/// (doc comments of `IndexExprResult`): exact = the rows; at-most ⊇ the rows; at-least ⊆ the rows.
fn holds(r: &IndexExprResult, truth: bool, x: u64) -> bool {
    match r {
        IndexExprResult::Exact(m) => m.selected(x) == truth,
        IndexExprResult::AtMost(m) => !truth || m.selected(x),
        IndexExprResult::AtLeast(m) => !m.selected(x) || truth,
    }
}

// @harness props=C21,C19,C20 tier=quick timeout=300 desc="NOT: if the operand keeps its guarantee w.r.t. T then the result keeps its guarantee w.r.t. ¬T"
harness!(not_keeps_guarantee, 10, {
    let r = any_result();
    let x: u64 = vnd::any();
    let t: bool = vnd::any();
    vnd::assume(holds(&r, t, x));
    let kind_in = r.discriminant();
    let out = eval_not(r);
    match out {
        Ok(o) => {
            vnd::cover!(kind_in == 1 && o.discriminant() == 2, "at-most becomes at-least");
            assert!(holds(&o, !t, x));
        }
        Err(_) => assert!(false),
    }
});

// @harness props=C21,C19,C20 tier=quick timeout=600 desc="AND: all 9 kind pairs, result guarantee w.r.t. Tl ∧ Tr"
harness!(and_keeps_guarantee, 10, {
    let (l, r) = (any_result(), any_result());
    let x: u64 = vnd::any();
    let (tl, tr): (bool, bool) = (vnd::any(), vnd::any());
    vnd::assume(holds(&l, tl, x) && holds(&r, tr, x));
    let (kl, kr) = (l.discriminant(), r.discriminant());
    let out = eval_and(Ok(l), Ok(r));
    match out {
        Ok(o) => {
            vnd::cover!(kl == 0 && kr == 2, "exact and at-least");
            vnd::cover!(kl == 2 && kr == 1 && tl && tr, "at-least and at-most, row matches");
            assert!(holds(&o, tl && tr, x));
            // an exact answer must not be weakened needlessly into nothing: exact∧exact stays exact
            assert!(!(kl == 0 && kr == 0) || o.discriminant() == 0);
        }
        Err(_) => assert!(false),
    }
});

// @harness props=C21,C19,C20 tier=quick timeout=600 desc="OR: all 9 kind pairs, result guarantee w.r.t. Tl ∨ Tr"
harness!(or_keeps_guarantee, 10, {
    let (l, r) = (any_result(), any_result());
    let x: u64 = vnd::any();
    let (tl, tr): (bool, bool) = (vnd::any(), vnd::any());
    vnd::assume(holds(&l, tl, x) && holds(&r, tr, x));
    let (kl, kr) = (l.discriminant(), r.discriminant());
    let out = eval_or(Ok(l), Ok(r));
    match out {
        Ok(o) => {
            vnd::cover!(kl == 1 && kr == 2, "at-most or at-least");
            vnd::cover!(kl == 0 && kr == 0 && !tl && tr, "exact or exact, row matches rhs only");
            assert!(holds(&o, tl || tr, x));
            assert!(!(kl == 0 && kr == 0) || o.discriminant() == 0);
        }
        Err(_) => assert!(false),
    }
});

// @harness props=C21,C19,C20 tier=quick timeout=300 desc="a failed operand propagates as an error; leaf results carry the search result as allow list with the same guarantee"
harness!(leaf_and_error_paths, 10, {
    let s = RowIdTreeMap::verif_any();
    let x: u64 = vnd::any();
    let t: bool = vnd::any();
    let k: u8 = vnd::any();
    vnd::assume(k < 3);
    let sr = match k {
        0 => SearchResult::Exact(s),
        1 => SearchResult::AtMost(s),
        _ => SearchResult::AtLeast(s),
    };
    match eval_query(sr) {
        Ok(o) => {
            vnd::cover!(k == 2 && s.contains(x), "at-least leaf with a member");
            assert!(o.discriminant() == k as u32);
            assert!(o.row_id_mask().selected(x) == s.contains(x));
        }
        Err(_) => assert!(false),
    }
    assert!(eval_and(Err(crate::expr::Error::InvalidInput), Ok(any_result())).is_err());
    assert!(eval_or(Ok(any_result()), Err(crate::expr::Error::InvalidInput)).is_err());
});

// @harness props=C21,C32 tier=quick timeout=300 desc="discriminant/from_parts round trip; unknown discriminants are rejected"
harness!(discriminant_roundtrip, 10, {
    let r = any_result();
    let x: u64 = vnd::any();
    let d = r.discriminant();
    let sel = r.row_id_mask().selected(x);
    let m = match r {
        IndexExprResult::Exact(m) | IndexExprResult::AtMost(m) | IndexExprResult::AtLeast(m) => m,
    };
    let back = IndexExprResult::from_parts(m, d);
    match back {
        Ok(b) => {
            vnd::cover!(d == 2, "at-least");
            assert!(b.discriminant() == d && b.row_id_mask().selected(x) == sel);
        }
        Err(_) => assert!(false),
    }
    let bad: u32 = vnd::any();
    vnd::assume(bad > 2);
    assert!(IndexExprResult::from_parts(any_mask(), bad).is_err());
});
