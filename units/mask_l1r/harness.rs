//! MASK-L1R harnesses: range insertion into the real `RowIdTreeMap` (interval model of the bitmaps).
use crate::mask::{RowIdMask, RowIdTreeMap};
use core::ops::Bound;
use roaring::RoaringBitmap;
use vnd::harness;

fn frag(x: u64) -> u32 {
    (x >> 32) as u32
}

fn in_bounds(lo: Bound<u64>, hi: Bound<u64>, x: u64) -> bool {
    (match lo {
        Bound::Included(s) => x >= s,
        Bound::Excluded(s) => x > s,
        Bound::Unbounded => true,
    }) && (match hi {
        Bound::Included(e) => x <= e,
        Bound::Excluded(e) => x < e,
        Bound::Unbounded => true,
    })
}

fn any_bound(kind: u8, v: u64) -> Bound<u64> {
    match kind {
        0 => Bound::Included(v),
        1 => Bound::Excluded(v),
        _ => Bound::Unbounded,
    }
}

/// first and last element of the range, if it is not empty (written independently of the code)
fn range_ends(lo: Bound<u64>, hi: Bound<u64>) -> Option<(u64, u64)> {
    let first = match lo {
        Bound::Included(s) => s,
        Bound::Excluded(s) => {
            if s == u64::MAX {
                return None;
            }
            s + 1
        }
        Bound::Unbounded => 0,
    };
    let last = match hi {
        Bound::Included(e) => e,
        Bound::Excluded(e) => {
            if e == 0 {
                return None;
            }
            e - 1
        }
        Bound::Unbounded => u64::MAX,
    };
    if first <= last {
        Some((first, last))
    } else {
        None
    }
}

fn insert_range_case(max_frag: usize) {
    let mut m = RowIdTreeMap::verif_any(max_frag, 1);
    let (lk, hk): (u8, u8) = (vnd::any(), vnd::any());
    vnd::assume(lk <= 2 && hk <= 2);
    let (lv, hv): (u64, u64) = (vnd::any(), vnd::any());
    let (lo, hi) = (any_bound(lk, lv), any_bound(hk, hv));
    let ends = range_ends(lo, hi);
    // bound: the range touches at most two fragments (the loop runs once per fragment)
    if let Some((f, l)) = ends {
        vnd::assume(frag(l) - frag(f) <= 1);
    }
    let x: u64 = vnd::any();
    let had_x = m.contains(x);
    let was_empty = m.verif_fragments() == 0;
    let n = m.insert_range((lo, hi));
    vnd::cover!(ends.is_none(), "an empty range");
    vnd::cover!(ends.is_some() && in_bounds(lo, hi, x) && !had_x, "a new member inside the range");
    vnd::cover!(matches!(ends, Some((f, l)) if frag(f) != frag(l)), "a range crossing a fragment boundary");
    assert!(m.contains(x) == (had_x || in_bounds(lo, hi, x)));
    if was_empty {
        match ends {
            None => assert!(n == 0),
            Some((f, l)) => assert!(l - f == u64::MAX || n == l - f + 1),
        }
    }
    assert!(m.verif_wf());
}

// @harness props=C21 tier=quick timeout=600 desc="insert_range with every bound kind into an empty map: membership = range, count = range length, empty ranges insert nothing, 32-bit boundaries"
harness!(tm_insert_range_empty_map, 6, {
    insert_range_case(0);
});

// @harness props=C21 tier=thorough timeout=1200 desc="insert_range into an arbitrary map (full fragments are kept, partial ones extended)"
harness!(tm_insert_range_any_map, 6, {
    insert_range_case(2);
});


// @harness props=C21 tier=thorough timeout=1200 desc="a -= b on the interval model (exact on the whole u32 domain, so a full fragment minus a bitmap keeps every other offset up to u32::MAX): set difference, invariant kept (one fragment per side, one interval per bitmap)"
harness!(tm_difference_intervals, 16, {
    let mut a = RowIdTreeMap::verif_any(1, 1);
    let b = RowIdTreeMap::verif_any(1, 1);
    let x: u64 = vnd::any();
    let (ia, ib) = (a.contains(x), b.contains(x));
    a -= &b;
    vnd::cover!(ia && !ib && x as u32 == u32::MAX, "the last offset of a fragment survives");
    assert!(a.contains(x) == (ia && !ib));
    assert!(a.verif_wf());
});
