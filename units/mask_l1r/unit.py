"""MASK-L1R: same transplant as mask_l1 but compiled against the *interval* model of RoaringBitmap
(exact on the whole u32 domain for sets of <=3 intervals): decides range insertion."""
import importlib.util, os
_p = os.path.join(os.path.dirname(__file__), "..", "mask_l1", "unit.py")
_s = importlib.util.spec_from_file_location("unit_mask_l1_base", _p)
_m = importlib.util.module_from_spec(_s)
_s.loader.exec_module(_m)

UNIT = dict(_m.UNIT)
UNIT["deps"] = 'vstd = { path = "/verif/models/vstd" }\nroaring = { package = "vroaring", path = "/verif/models/roaring" }'
UNIT["models"] = [_m.UNIT["models"][0],
                  "roaring::RoaringBitmap -> union of <=3 disjoint u32 intervals (exact on the whole u32 domain for sets of interval complexity <=3; more is a model bound)",
                  _m.UNIT["models"][2]]
UNIT["bounds"] = {"fragments_per_map": "<=2 in the symbolic pre-state (arbitrary u32 fragment ids), capacity 4",
                  "bitmap": "<=1 interval per fragment in the pre-state, <=3 in results; end points arbitrary u32",
                  "insert_range": "every bound kind (included/excluded/unbounded) with arbitrary u64 end points, ranges spanning <=2 fragments (loop unwinding, unwinding assertion on)",
                  "probe": "post-conditions are pointwise on an arbitrary u64 row id"}
build = _m.build
