"""STORVER: `check_storage_version` (lance/src/io/commit.rs) and `Fragment::try_infer_version`
(lance-table/src/format/fragment.rs) together with LanceFileVersion (lance-encoding/src/version.rs):
after a commit's check, every data file carries the table's storage version."""
import importlib.util
import os
import re
from vf import extract as X

C = "rust/lance/src/io/commit.rs"
FR = "rust/lance-table/src/format/fragment.rs"
V = "rust/lance-encoding/src/version.rs"
FILEVER = os.path.join(os.path.dirname(__file__), "..", "filever", "unit.py")

UNIT = dict(
    engine="kani-transplant",
    deps='vstd = { path = "/verif/models/vstd" }',
    encoded={C: ["fn check_storage_version"], FR: ["Fragment::try_infer_version"], V: ["as in unit filever"]},
    models=["Manifest -> {data_storage_format, fragments}; DataStorageFormat -> holds the LanceFileVersion its version string denotes (new() stores version.resolve(), as the real constructor does; lance_file_version() returns it)",
            "Fragment -> {files}; DataFile -> {file_major_version, file_minor_version}; Vec -> vstd::cvec (<=2 fragments x <=2 files)",
            "log::warn! -> no-op; Error::Internal{format!,location!} / Error::invalid_input -> unit-like errors"],
    bounds={"fragments": "<=2 fragments with <=2 data files each, every file with arbitrary (major, minor) u32 numbers", "table version": "any of the 4 concrete versions (what DataStorageFormat::new stores)"},
    outside=["that every commit path calls check_storage_version (commit orchestration)", "how files get their version numbers (writers)"],
)

ENV = open(os.path.join(os.path.dirname(__file__), "env.rs")).read()


def build(repo, subs):
    spec = importlib.util.spec_from_file_location("unit_filever_for_storver", FILEVER)
    fv = importlib.util.module_from_spec(spec)
    spec.loader.exec_module(fv)
    files = fv.build(repo, subs)
    files.pop("src/lib.rs")
    files["src/fv_env.rs"] = files.pop("src/env.rs")
    files["src/version.rs"] = files["src/version.rs"].replace("use crate::env::{ascii_lower, Error, Result};", "use crate::fv_env::{ascii_lower, Error, Result};")
    c = repo.read(C)
    fr = repo.read(FR)
    chk = X.extract_item(c, r"^fn check_storage_version\b")
    chk = subs.lit(chk, "fn check_storage_version(", "pub fn check_storage_version(", why="visibility")
    n_int = len(re.findall(r"Error::Internal \{", chk))
    chk = subs.rx(chk, r"Error::Internal \{\s*message: format!\(.*?\),\s*location: location!\(\),\s*\}", "Error::Internal", count=n_int, flags=re.S,
                  why="error payload (format!/location!) dropped")
    chk = subs.rx(chk, r"log::warn!\(.*?\);", "();", flags=re.S, why="logging")
    tiv = X.extract_item(fr, r"^\s*pub fn try_infer_version\b")
    tiv = subs.rx(tiv, r"Error::invalid_input\(\s*format!\(.*?\),\s*location!\(\),\s*\)", "Error::InvalidInput", flags=re.S, why="error payload dropped")
    body = f"""use crate::env::{{DataStorageFormat, Error, Fragment, Manifest, Result}};
use crate::version::LanceFileVersion;

{chk}

impl Fragment {{
{tiv}
}}
"""
    files["src/env.rs"] = ENV
    files["src/storver.rs"] = body
    files["src/lib.rs"] = ("#![allow(dead_code, unused_imports, unused_variables, unused_mut, non_camel_case_types, clippy::all)]\n"
                           "pub mod fv_env;\npub mod version;\npub mod env;\npub mod storver;\npub mod harness;\n")
    return files
