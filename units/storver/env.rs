use crate::version::LanceFileVersion;
use vstd::cvec::Vec;

#[derive(Debug, PartialEq)]
pub enum Error {
    Internal,
    InvalidInput,
    Version,
}
impl From<crate::fv_env::Error> for Error {
    fn from(_: crate::fv_env::Error) -> Self {
        Self::Version
    }
}
pub type Result<T> = std::result::Result<T, Error>;

#[derive(Clone, Debug, Default)]
pub struct DataFile {
    pub file_major_version: u32,
    pub file_minor_version: u32,
}

#[derive(Clone, Debug, Default)]
pub struct Fragment {
    pub files: Vec<DataFile>,
}

/// holds the version its `version` string denotes
#[derive(Clone, Debug, PartialEq)]
pub struct DataStorageFormat {
    pub v: LanceFileVersion,
}
impl DataStorageFormat {
    /// the real constructor stores `version.resolve().to_string()`
    pub fn new(version: LanceFileVersion) -> Self {
        Self { v: version.resolve() }
    }
    pub fn lance_file_version(&self) -> Result<LanceFileVersion> {
        Ok(self.v)
    }
}

pub struct Manifest {
    pub data_storage_format: DataStorageFormat,
    pub fragments: Vec<Fragment>,
}
