//! C37 harness: a manifest that passes check_storage_version has files of exactly its storage version.
use crate::env::*;
use crate::storver::check_storage_version;
use crate::version::LanceFileVersion;
use vnd::harness;
use vstd::cvec::Vec;

fn any_concrete_version() -> LanceFileVersion {
    let k: u8 = vnd::any();
    vnd::assume(k < 4);
    match k {
        0 => LanceFileVersion::Legacy,
        1 => LanceFileVersion::V2_0,
        2 => LanceFileVersion::V2_1,
        _ => LanceFileVersion::V2_2,
    }
}

// @harness props=C37 tier=quick timeout=900 desc="check_storage_version over <=2 fragments x <=2 files with arbitrary version numbers: on a 2.x table it succeeds iff every file decodes to exactly the table's version; on a legacy table newer files upgrade the recorded version; mixed or unknown file versions are errors"
harness!(files_carry_table_version, 6, {
    let table = any_concrete_version();
    let nums: [(u32, u32); 4] = [(vnd::any(), vnd::any()), (vnd::any(), vnd::any()), (vnd::any(), vnd::any()), (vnd::any(), vnd::any())];
    let counts: [usize; 2] = vnd::any();
    vnd::assume(counts[0] <= 2 && counts[1] <= 2);
    let nfrag: usize = vnd::any();
    vnd::assume(nfrag <= 2);
    let mut fragments = Vec::new();
    let mut f = 0;
    while f < 2 {
        if f < nfrag {
            let mut files = Vec::new();
            let mut i = 0;
            while i < 2 {
                if i < counts[f] {
                    files.push(DataFile { file_major_version: nums[2 * f + i].0, file_minor_version: nums[2 * f + i].1 });
                }
                i += 1;
            }
            fragments.push(Fragment { files });
        }
        f += 1;
    }
    let mut m = Manifest { data_storage_format: DataStorageFormat::new(table), fragments };
    let r = check_storage_version(&mut m);
    let after = m.data_storage_format.v;
    // expected: decode every present file
    let mut any_file = false;
    let mut all_known = true;
    let mut all_equal_table = true;
    let mut f = 0;
    while f < 2 {
        let mut i = 0;
        while i < 2 {
            if f < nfrag && i < counts[f] {
                any_file = true;
                match LanceFileVersion::try_from_major_minor(nums[2 * f + i].0, nums[2 * f + i].1) {
                    Ok(v) => {
                        if v != after {
                            all_equal_table = false;
                        }
                    }
                    Err(_) => all_known = false,
                }
            }
            i += 1;
        }
        f += 1;
    }
    vnd::cover!(r.is_ok() && any_file && nfrag == 2 && counts[1] == 2, "accepted with files in two fragments");
    vnd::cover!(r.is_err() && all_known, "rejected although every file version is known");
    if r.is_ok() {
        // every file carries the (possibly upgraded) table version
        assert!(all_known);
        if table != LanceFileVersion::Legacy {
            assert!(after == table);
            assert!(all_equal_table);
        } else {
            assert!(all_equal_table || after == LanceFileVersion::Legacy);
        }
    }
    if any_file && all_known && all_equal_table && after == table {
        assert!(r.is_ok());
    }
});
