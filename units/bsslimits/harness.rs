//! C26 harness: byte-stream-split chunks respect the documented mini-block limits.
use crate::bss::*;
use vnd::harness;

// @harness props=C26 tier=quick timeout=300 desc="ByteStreamSplitEncoder::max_chunk_size for f32 and f64: a power of two, at most MAX_MINIBLOCK_VALUES values and at most MAX_MINIBLOCK_BYTES bytes per chunk"
harness!(bss_chunk_within_limits, 3, {
    let wide: bool = vnd::any();
    let enc = ByteStreamSplitEncoder::new(if wide { 64 } else { 32 });
    let chunk = enc.max_chunk_size();
    vnd::cover!(wide, "f64");
    assert!(chunk.is_power_of_two());
    assert!(chunk as u64 <= MAX_MINIBLOCK_VALUES);
    assert!((chunk * enc.bytes_per_value()) as u64 <= MAX_MINIBLOCK_BYTES);
    assert!(enc.bytes_per_value() == if wide { 8 } else { 4 });
});
