"""BSSLIMITS: the chunk-size choice of the byte-stream-split encoder against the mini-block limits."""
from vf import extract as X

B = "rust/lance-encoding/src/encodings/physical/byte_stream_split.rs"
M = "rust/lance-encoding/src/encodings/logical/primitive/miniblock.rs"

UNIT = dict(
    engine="kani-transplant",
    deps="",
    encoded={B: ["struct ByteStreamSplitEncoder", "impl ByteStreamSplitEncoder (new, bytes_per_value, max_chunk_size)"],
             M: ["const MAX_MINIBLOCK_BYTES", "const MAX_MINIBLOCK_VALUES"]},
    models=[],
    bounds={"widths": "both supported widths (32, 64 bits)"},
    outside=["the byte transposition itself (LanceBuffer / DataBlock)", "chunk limits of the other mini-block encoders"],
)


def build(repo, subs):
    b = X.strip_tests(repo.read(B))
    m = X.strip_tests(repo.read(M))
    st = X.extract_item(b, r"^pub struct ByteStreamSplitEncoder\b")
    im = X.extract_item(b, r"^impl ByteStreamSplitEncoder \{")
    n = im.count("    fn ")
    im = im.replace("    fn ", "    pub fn ")
    subs.log.append({"old": "fn bytes_per_value / fn max_chunk_size", "new": "pub fn", "count": n, "why": "visibility only"})
    consts = X.extract_item(m, r"^pub const MAX_MINIBLOCK_BYTES\b") + "\n" + X.extract_item(m, r"^pub const MAX_MINIBLOCK_VALUES\b")
    lib = ("#![allow(dead_code, unused_imports, unused_variables, unused_mut, clippy::all)]\n"
           "pub mod bss;\npub mod harness;\n")
    return {"src/lib.rs": lib, "src/bss.rs": consts + "\n\n" + st + "\n\n" + im + "\n"}
