//! C20/C29 harness: a zone is never skipped while it holds a row that satisfies the query.
use crate::env::{SargableQuery, ScalarValue, ValueList};
use crate::zonemap::{ZoneMapIndex, ZoneMapStatistics};
use core::cmp::Ordering;
use core::ops::Bound;
use vnd::harness;

/// a value of the column type `ty` (0 Int32, 1 UInt64, 2 Float32, 3 Float64), possibly NULL
fn any_value(ty: u8, allow_null: bool) -> ScalarValue {
    let null: bool = vnd::any();
    vnd::assume(allow_null || !null);
    match ty {
        0 => ScalarValue::Int32(if null { None } else { Some(vnd::any()) }),
        1 => ScalarValue::UInt64(if null { None } else { Some(vnd::any()) }),
        2 => ScalarValue::Float32(if null { None } else { Some(vnd::any()) }),
        _ => ScalarValue::Float64(if null { None } else { Some(vnd::any()) }),
    }
}

fn is_nan(v: &ScalarValue) -> bool {
    match v {
        ScalarValue::Float32(Some(f)) => f.is_nan(),
        ScalarValue::Float64(Some(f)) => f.is_nan(),
        _ => false,
    }
}

/// a NaN other than the two default quiet NaNs (`f32::NAN` and its negation, which is what x86 produces
/// for 0.0/0.0): total order also tells NaN payloads apart, which no data source produces; stated
/// bound, see DESIGN.md
fn odd_nan(v: &ScalarValue) -> bool {
    match v {
        ScalarValue::Float32(Some(f)) => f.is_nan() && f.to_bits() != 0x7fc0_0000u32 && f.to_bits() != 0xffc0_0000u32,
        ScalarValue::Float64(Some(f)) => f.is_nan() && f.to_bits() != 0x7ff8_0000_0000_0000u64 && f.to_bits() != 0xfff8_0000_0000_0000u64,
        _ => false,
    }
}

/// query literals: only the positive default NaN (a negative NaN literal compares below everything in
/// total order; nobody writes one)
fn negative_nan(v: &ScalarValue) -> bool {
    match v {
        ScalarValue::Float32(Some(f)) => f.is_nan() && f.to_bits() != 0x7fc0_0000u32,
        ScalarValue::Float64(Some(f)) => f.is_nan() && f.to_bits() != 0x7ff8_0000_0000_0000u64,
        _ => false,
    }
}

fn eq(a: &ScalarValue, b: &ScalarValue) -> bool {
    a.partial_cmp(b) == Some(Ordering::Equal)
}

fn any_bound(ty: u8) -> Bound<ScalarValue> {
    let k: u8 = vnd::any();
    vnd::assume(k < 3);
    match k {
        0 => Bound::Unbounded,
        1 => {
            let v = any_value(ty, false);
            vnd::assume(!negative_nan(&v));
            Bound::Included(v)
        }
        _ => {
            let v = any_value(ty, false);
            vnd::assume(!negative_nan(&v));
            Bound::Excluded(v)
        }
    }
}

/// does the row value `v` satisfy the query (comparison semantics of the scan: NULL never
/// compares, floats in total order)
fn satisfies(v: &ScalarValue, q: &SargableQuery) -> bool {
    match q {
        SargableQuery::IsNull() => v.is_null(),
        SargableQuery::Equals(t) => !v.is_null() && !t.is_null() && eq(v, t),
        SargableQuery::IsIn(ts) => {
            let mut r = false;
            for t in ts.iter() {
                if !v.is_null() && !t.is_null() && eq(v, t) {
                    r = true;
                }
            }
            r
        }
        SargableQuery::Range(lo, hi) => {
            !v.is_null()
                && match lo {
                    Bound::Unbounded => true,
                    Bound::Included(s) => v >= s,
                    Bound::Excluded(s) => v > s,
                }
                && match hi {
                    Bound::Unbounded => true,
                    Bound::Included(e) => v <= e,
                    Bound::Excluded(e) => v < e,
                }
        }
        SargableQuery::FullTextSearch(_) => false,
    }
}

fn case(ty: u8) {
    // one arbitrary row value of the zone and statistics that satisfy the builder's contract for it
    let v = any_value(ty, true);
    vnd::assume(!odd_nan(&v));
    // a zone whose rows are all NULL has NULL min/max (the accumulators saw no value)
    let (min, max) = (any_value(ty, true), any_value(ty, true));
    vnd::assume(!odd_nan(&min) && !odd_nan(&max));
    vnd::assume(min.is_null() == max.is_null());
    let zone = ZoneMapStatistics { min, max, null_count: vnd::any(), nan_count: vnd::any(), fragment_id: 0, zone_start: 0, zone_length: 8 };
    // contract of the builder (update_stats): null_count / nan_count count the NULL / NaN rows; min and max
    // are DataFusion's Min/Max accumulators over all non-null rows, i.e. bounds in ScalarValue (total) order
    if v.is_null() {
        vnd::assume(zone.null_count > 0);
    } else {
        if is_nan(&v) {
            vnd::assume(zone.nan_count > 0);
        }
        vnd::assume(!zone.min.is_null() && zone.min <= v && v <= zone.max);
    }
    let kind: u8 = vnd::any();
    vnd::assume(kind < 4);
    let q = match kind {
        0 => SargableQuery::IsNull(),
        1 => {
            let t = any_value(ty, true);
            vnd::assume(!odd_nan(&t));
            SargableQuery::Equals(t)
        }
        2 => {
            let mut l = ValueList::new();
            let n: u8 = vnd::any();
            vnd::assume(n <= 2);
            if n >= 1 {
                let t = any_value(ty, true);
                vnd::assume(!odd_nan(&t));
                l.push(t);
            }
            if n >= 2 {
                let t = any_value(ty, true);
                vnd::assume(!odd_nan(&t));
                l.push(t);
            }
            SargableQuery::IsIn(l)
        }
        _ => SargableQuery::Range(any_bound(ty), any_bound(ty)),
    };
    let sat = satisfies(&v, &q);
    let keep = ZoneMapIndex.evaluate_zone_against_query(&zone, &q);
    vnd::cover!(sat && kind == 3, "a row inside a range query");
    vnd::cover!(sat && zone.min.is_null(), "a matching row in an all-NULL zone");
    vnd::cover!(!sat && matches!(keep, Ok(false)), "a zone that is pruned");
    match keep {
        Ok(k) => assert!(!sat || k),
        Err(_) => assert!(false),
    }
}

// @harness props=C20,C29 tier=quick timeout=900 desc="zone map over an Int32 column: if a row of the zone satisfies IsNull / Equals / IsIn(<=2) / Range(any bounds) the zone is kept"
harness!(zone_never_drops_match_i32, 6, {
    case(0);
});

// @harness props=C20,C29 tier=thorough timeout=1800 desc="same over a UInt64 column"
harness!(zone_never_drops_match_u64, 6, {
    case(1);
});

// @harness props=C20,C29 tier=quick timeout=900 desc="same over a Float32 column, every bit pattern (NaN, +-0, +-inf, subnormals), total order"
harness!(zone_never_drops_match_f32, 6, {
    case(2);
});

// @harness props=C20,C29 tier=thorough timeout=1800 desc="same over a Float64 column"
harness!(zone_never_drops_match_f64, 6, {
    case(3);
});
