"""ZONEMAP: the pruning decision of the zone-map index, `ZoneMapIndex::evaluate_zone_against_query`
(lance-index/src/scalar/zonemap.rs), against models of DataFusion's ScalarValue and lance's SargableQuery."""
import os
import re
from vf import extract as X

F = "rust/lance-index/src/scalar/zonemap.rs"
Q = "rust/lance-index/src/scalar.rs"

UNIT = dict(
    engine="kani-transplant",
    deps='vstd = { path = "/verif/models/vstd" }',
    encoded={F: ["struct ZoneMapStatistics", "ZoneMapIndex::evaluate_zone_against_query"],
             Q: ["enum SargableQuery (variant list, cross-checked against the model)"]},
    models=["datafusion_common::ScalarValue -> enum with Int32, UInt64, Float16, Float32, Float64 (Option payloads); PartialOrd as in datafusion-common 50: same variant -> Option ordering for integers (None first), total_cmp for floats; different variants incomparable",
            "half::f16 -> bit-level f16 with is_nan and total_cmp", "SargableQuery -> same variants; IsIn holds a fixed-capacity vector (<=2 values); FullTextSearch payload is ()",
            "lance_core::Error -> unit-like error"],
    bounds={"value types": "Int32, UInt64, Float32, Float64 (all bit patterns incl. NaN, +-0, +-inf)", "IsIn": "<=2 values", "statistics": "arbitrary min/max/null_count/nan_count satisfying the builder's contract w.r.t. ONE arbitrary row value v of the zone",
            "contract assumed": "v NULL => null_count>0; v NaN => nan_count>0; v non-null => min <= v <= max in ScalarValue (total) order, min/max non-null of v's type (what update_stats computes with DataFusion's Min/MaxAccumulator)"},
    outside=["that the builder's accumulators produce statistics satisfying the contract (Arrow/DataFusion min/max kernels)", "Float16 values, strings, temporal types", "legacy v1 page-statistics pruning (pushdown_scan.rs, DataFusion PruningPredicate)", "NaNs with a non-default payload anywhere, and negative NaN literals as *range bounds*: ScalarValue's total order tells them apart (see DESIGN.md); rows, statistics and Equals/IsIn literals may be either default NaN (f32::NAN or its negation, the NaN x86 computes)"],
)

ENV = open(os.path.join(os.path.dirname(__file__), "env.rs")).read()


def build(repo, subs):
    src = X.strip_tests(repo.read(F))
    q = repo.read(Q)
    en = X.extract_item(q, r"^pub enum SargableQuery\b")
    variants = re.findall(r"^\s{4}(\w+)\(", en, re.M)
    if sorted(variants) != sorted(["Range", "IsIn", "Equals", "FullTextSearch", "IsNull"]):
        raise X.Inconclusive(f"SargableQuery variants changed: {variants}")
    st = X.extract_item(src, r"^struct ZoneMapStatistics\b")
    st = subs.lit(st, "struct ZoneMapStatistics {", "pub struct ZoneMapStatistics {", why="visibility")
    st = re.sub(r"^    (min|max|null_count|nan_count|fragment_id|zone_start|zone_length):", r"    pub \1:", st, flags=re.M)
    fn = X.extract_item(src, r"^\s*fn evaluate_zone_against_query\b")
    fn = subs.lit(fn, "fn evaluate_zone_against_query(", "pub fn evaluate_zone_against_query(", why="visibility")
    fn = subs.rx(fn, r"Err\(Error::NotSupported \{.*?\}\)", "Err(Error::NotSupported)", flags=re.S, why="error payload dropped")
    body = f"""use crate::env::{{Error, Result, SargableQuery, ScalarValue}};

{st}

pub struct ZoneMapIndex;

impl ZoneMapIndex {{
{fn}
}}
"""
    lib = ("#![allow(dead_code, unused_imports, unused_variables, unused_mut, clippy::all)]\n"
           "pub mod env;\npub mod zonemap;\npub mod harness;\n")
    return {"src/lib.rs": lib, "src/zonemap.rs": body, "src/env.rs": ENV}
