//! Models of datafusion_common::ScalarValue (ordering as in datafusion-common 50) and SargableQuery.
use core::cmp::Ordering;
use core::ops::Bound;

#[derive(Debug)]
pub enum Error {
    NotSupported,
}
pub type Result<T> = std::result::Result<T, Error>;

/// half::f16, bit level
#[derive(Clone, Copy, Debug, PartialEq, Default)]
pub struct F16(pub u16);
impl F16 {
    pub fn is_nan(&self) -> bool {
        self.0 & 0x7fff > 0x7c00
    }
    pub fn total_cmp(&self, o: &Self) -> Ordering {
        let key = |b: u16| -> i16 {
            let i = b as i16;
            i ^ (((i >> 15) as u16) >> 1) as i16
        };
        key(self.0).cmp(&key(o.0))
    }
}

#[derive(Clone, Copy, Debug, PartialEq)]
pub enum ScalarValue {
    Int32(Option<i32>),
    UInt64(Option<u64>),
    Float16(Option<F16>),
    Float32(Option<f32>),
    Float64(Option<f64>),
}
impl Default for ScalarValue {
    fn default() -> Self {
        Self::Int32(None)
    }
}

impl ScalarValue {
    pub fn is_null(&self) -> bool {
        match self {
            Self::Int32(v) => v.is_none(),
            Self::UInt64(v) => v.is_none(),
            Self::Float16(v) => v.is_none(),
            Self::Float32(v) => v.is_none(),
            Self::Float64(v) => v.is_none(),
        }
    }
}

impl PartialOrd for ScalarValue {
    fn partial_cmp(&self, other: &Self) -> Option<Ordering> {
        use ScalarValue::*;
        match (self, other) {
            (Int32(a), Int32(b)) => a.partial_cmp(b),
            (UInt64(a), UInt64(b)) => a.partial_cmp(b),
            (Float16(a), Float16(b)) => match (a, b) {
                (Some(x), Some(y)) => Some(x.total_cmp(y)),
                (None, None) => Some(Ordering::Equal),
                (None, Some(_)) => Some(Ordering::Less),
                (Some(_), None) => Some(Ordering::Greater),
            },
            (Float32(a), Float32(b)) => match (a, b) {
                (Some(x), Some(y)) => Some(x.total_cmp(y)),
                _ => a.partial_cmp(b),
            },
            (Float64(a), Float64(b)) => match (a, b) {
                (Some(x), Some(y)) => Some(x.total_cmp(y)),
                _ => a.partial_cmp(b),
            },
            _ => None,
        }
    }
}

pub type ValueList = vstd::cvec::Vec<ScalarValue>;

pub enum SargableQuery {
    Range(Bound<ScalarValue>, Bound<ScalarValue>),
    IsIn(ValueList),
    Equals(ScalarValue),
    FullTextSearch(()),
    IsNull(),
}
