//! MASK-L1 harnesses: the real `RowIdTreeMap` refines a mathematical set of u64 row ids.
//! Every post-condition is pointwise on an arbitrary probe `x: u64`.
use crate::mask::{RowIdMask, RowIdTreeMap};
use core::ops::Bound;
use roaring::RoaringBitmap;
use vnd::harness;


fn frag(x: u64) -> u32 {
    (x >> 32) as u32
}

// @harness props=C21 tier=quick timeout=300 desc="insert(v): membership becomes old ∪ {v}; returns whether v was new; invariant kept"
harness!(tm_insert, 6, {
    roaring::verif_set_universe();
    let mut m = RowIdTreeMap::verif_any(2, 2);
    let v: u64 = vnd::any();
    let x: u64 = vnd::any();
    let (had_v, had_x) = (m.contains(v), m.contains(x));
    let r = m.insert(v);
    vnd::cover!(!had_v && had_x && x != v, "new value next to an old member");
    assert!(r == !had_v);
    assert!(m.contains(x) == (had_x || x == v));
    assert!(m.verif_wf());
});

// @harness props=C21 tier=quick timeout=300 desc="remove(v): membership becomes old minus {v} (also out of a full fragment); returns whether v was present"
harness!(tm_remove, 6, {
    roaring::verif_set_universe();
    let mut m = RowIdTreeMap::verif_any(2, 2);
    let v: u64 = vnd::any();
    let x: u64 = vnd::any();
    let (had_v, had_x) = (m.contains(v), m.contains(x));
    let r = m.remove(v);
    vnd::cover!(had_v && had_x && x != v && frag(x) == frag(v), "removal next to a surviving member");
    assert!(r == had_v);
    assert!(m.contains(x) == (had_x && x != v));
    assert!(m.verif_wf());
});

// @harness props=C21 tier=quick timeout=300 desc="insert_fragment / insert_bitmap / get_fragment_bitmap / retain_fragments"
harness!(tm_fragment_ops, 6, {
    roaring::verif_set_universe();
    let m0 = RowIdTreeMap::verif_any(2, 2);
    let f: u32 = vnd::any();
    let x: u64 = vnd::any();
    let had_x = m0.contains(x);
    let mut m = m0.clone();
    m.insert_fragment(f);
    vnd::cover!(had_x && frag(x) != f, "member of another fragment");
    assert!(m.contains(x) == (had_x || frag(x) == f));
    let mut m = m0.clone();
    let b = RoaringBitmap::verif_any(2);
    m.insert_bitmap(f, b);
    assert!(m.contains(x) == if frag(x) == f { b.contains(x as u32) } else { had_x });
    match m.get_fragment_bitmap(f) {
        Some(g) => assert!(g.contains(x as u32) == b.contains(x as u32)),
        None => assert!(false),
    }
    let mut m = m0.clone();
    let keep: [u32; 2] = vnd::any();
    m.retain_fragments(keep);
    assert!(m.contains(x) == (had_x && (frag(x) == keep[0] || frag(x) == keep[1])));
});

// @harness props=C21 tier=quick timeout=600 desc="a |= b is set union (full markers absorb), invariant kept"
harness!(tm_union, 6, {
    roaring::verif_set_universe();
    let mut a = RowIdTreeMap::verif_any(2, 1);
    let b = RowIdTreeMap::verif_any(2, 1);
    let x: u64 = vnd::any();
    let (ia, ib) = (a.contains(x), b.contains(x));
    a |= b;
    vnd::cover!(!ia && ib, "member only of rhs");
    assert!(a.contains(x) == (ia || ib));
    assert!(a.verif_wf());
});

// @harness props=C21 tier=quick timeout=600 desc="a &= b is set intersection; result empty iff disjoint; invariant kept"
harness!(tm_intersection, 6, {
    roaring::verif_set_universe();
    let mut a = RowIdTreeMap::verif_any(2, 1);
    let b = RowIdTreeMap::verif_any(2, 1);
    let x: u64 = vnd::any();
    let (ia, ib) = (a.contains(x), b.contains(x));
    a &= &b;
    vnd::cover!(ia && ib, "member of both");
    vnd::cover!(ia && !ib, "member only of lhs");
    assert!(a.contains(x) == (ia && ib));
    assert!(a.verif_wf());
    // the row-level conflict test of the commit rebase relies on these two
    if a.contains(x) {
        assert!(!a.is_empty() && a.len() != Some(0));
    }
    if !a.is_empty() {
        let w = a.verif_witness();
        assert!(w.is_some());
    }
});

// @harness props=C21 tier=quick timeout=600 desc="a -= b is set difference (also out of full fragments); invariant kept"
harness!(tm_difference, 6, {
    roaring::verif_set_universe();
    let mut a = RowIdTreeMap::verif_any(2, 1);
    let b = RowIdTreeMap::verif_any(2, 1);
    let x: u64 = vnd::any();
    let (ia, ib) = (a.contains(x), b.contains(x));
    a -= &b;
    vnd::cover!(ia && !ib, "member survives");
    vnd::cover!(ia && ib, "member removed");
    assert!(a.contains(x) == (ia && !ib));
    assert!(a.verif_wf());
});

// @harness props=C21 tier=quick timeout=300 desc="len/is_empty agree with membership: None iff a full marker; Some(0)/is_empty iff no member; a witness member exists otherwise"
harness!(tm_len_empty, 6, {
    roaring::verif_set_universe();
    let m = RowIdTreeMap::verif_any(2, 2);
    let x: u64 = vnd::any();
    let l = m.len();
    vnd::cover!(l == Some(5), "five members");
    assert!(l.is_none() == m.verif_has_full());
    if m.contains(x) {
        assert!(l != Some(0) && !m.is_empty());
    }
    match m.verif_witness() {
        Some(w) => assert!(m.contains(w) && !m.is_empty() && l != Some(0)),
        None => assert!(m.is_empty() && l == Some(0)),
    }
});

// @harness props=C21 tier=thorough timeout=900 desc="len is additive: |a ∪ b| + |a ∩ b| = |a| + |b| when no full markers"
harness!(tm_len_inclusion_exclusion, 6, {
    roaring::verif_set_universe();
    let a = RowIdTreeMap::verif_any(2, 1);
    let b = RowIdTreeMap::verif_any(2, 1);
    vnd::assume(!a.verif_has_full() && !b.verif_has_full());
    let (la, lb) = (a.len(), b.len());
    let u = a.clone() | b.clone();
    let i = a & b;
    vnd::cover!(i.len() == Some(2), "two common members");
    match (la, lb, u.len(), i.len()) {
        (Some(la), Some(lb), Some(lu), Some(li)) => assert!(lu + li == la + lb),
        _ => assert!(false),
    }
});

// @harness props=C21 tier=thorough timeout=900 desc="mask(): allow list intersects, block list subtracts"
harness!(tm_apply_mask, 6, {
    roaring::verif_set_universe();
    let mut a = RowIdTreeMap::verif_any(1, 1);
    let allow = if vnd::any::<bool>() { Some(RowIdTreeMap::verif_any(1, 1)) } else { None };
    let block = if vnd::any::<bool>() { Some(RowIdTreeMap::verif_any(1, 1)) } else { None };
    let x: u64 = vnd::any();
    let ia = a.contains(x);
    let mask = RowIdMask { allow_list: allow, block_list: block };
    let sel = mask.selected(x);
    a.mask(&mask);
    vnd::cover!(ia && sel && mask.allow_list.is_some() && mask.block_list.is_some(), "kept through both lists");
    assert!(a.contains(x) == (ia && sel));
});

// @harness props=C21 tier=thorough timeout=900 desc="from_iter / extend over 2 ids build exactly those ids"
harness!(tm_from_iter_extend, 6, {
    roaring::verif_set_universe();
    let ids: [u64; 2] = vnd::any();
    let x: u64 = vnd::any();
    let m = RowIdTreeMap::from_iter(ids.iter());
    vnd::cover!(frag(ids[0]) != frag(ids[1]) && x == ids[1], "two fragments");
    assert!(m.contains(x) == (x == ids[0] || x == ids[1]));
    let mut e = RowIdTreeMap::verif_any(1, 1);
    let had = e.contains(x);
    e.extend(ids.iter());
    assert!(e.contains(x) == (had || x == ids[0] || x == ids[1]));
});

// @harness props=C21 tier=thorough timeout=1200 desc="row_ids(): None iff a full marker, otherwise yields exactly the members in ascending order (<=3 members)"
harness!(tm_row_ids, 8, {
    roaring::verif_set_universe();
    let m = RowIdTreeMap::verif_any(2, 1);
    vnd::assume(m.verif_has_full() || m.len().map(|l| l <= 3).unwrap_or(false));
    let x: u64 = vnd::any();
    let has = m.contains(x);
    let ids = m.row_ids();
    match ids {
        None => assert!(m.verif_has_full()),
        Some(it) => {
            assert!(!m.verif_has_full());
            let mut seen = false;
            let mut prev: Option<u64> = None;
            let mut n = 0u64;
            for a in it {
                let a: u64 = a.into();
                assert!(m.contains(a));
                if let Some(p) = prev {
                    assert!(p < a);
                }
                prev = Some(a);
                if a == x {
                    seen = true;
                }
                n += 1;
            }
            vnd::cover!(n == 3, "three members over two fragments");
            assert!(seen == has);
            assert!(Some(n) == m.len());
        }
    }
});
