
// ---------------------------------------------------------------------------------------------
// Model-only helpers appended by /verif/units/mask_l1 (same module => private access to `inner`).
// ---------------------------------------------------------------------------------------------
impl RowIdTreeMap {
    /// An arbitrary map with at most `max_frag` (<=2) fragments; each fragment is `Full` or a
    /// non-empty `Partial` bitmap of interval complexity <= `max_iv`.
    pub fn verif_any(max_frag: usize, max_iv: usize) -> Self {
        let mut inner = BTreeMap::new();
        let n: usize = vnd::any();
        vnd::assume(n <= max_frag && n <= 2);
        let k0: u32 = vnd::any();
        let k1: u32 = vnd::any();
        vnd::assume(k0 < k1);
        if n >= 1 {
            inner.verif_push_back(k0, Self::verif_any_selection(max_iv));
        }
        if n >= 2 {
            inner.verif_push_back(k1, Self::verif_any_selection(max_iv));
        }
        Self { inner }
    }

    fn verif_any_selection(max_iv: usize) -> RowIdSelection {
        if vnd::any::<bool>() {
            RowIdSelection::Full
        } else {
            let b = RoaringBitmap::verif_any(max_iv);
            vnd::assume(!b.is_empty());
            RowIdSelection::Partial(b)
        }
    }

    /// Representation invariant the set operations maintain: no fragment maps to an empty bitmap
    /// (otherwise `is_empty()` disagrees with membership).
    pub fn verif_wf(&self) -> bool {
        let mut ok = true;
        for (_, s) in self.inner.iter() {
            if let RowIdSelection::Partial(b) = s {
                if b.is_empty() {
                    ok = false;
                }
            }
        }
        ok
    }

    pub fn verif_has_full(&self) -> bool {
        let mut r = false;
        for (_, s) in self.inner.iter() {
            if let RowIdSelection::Full = s {
                r = true;
            }
        }
        r
    }

    pub fn verif_fragments(&self) -> usize {
        self.inner.len()
    }

    /// Some member of the set, if it has one (smallest of the first non-empty fragment).
    pub fn verif_witness(&self) -> Option<u64> {
        let mut w = None;
        for (k, s) in self.inner.iter() {
            if w.is_none() {
                match s {
                    RowIdSelection::Full => w = Some((*k as u64) << 32),
                    RowIdSelection::Partial(b) => {
                        if let Some(m) = b.min() {
                            w = Some(((*k as u64) << 32) | m as u64);
                        }
                    }
                }
            }
        }
        w
    }
}
