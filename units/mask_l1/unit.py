"""MASK-L1: the real `RowIdTreeMap` / `RowIdSelection` (and `RowIdMask`, for `mask()`) from
lance-core/src/utils/mask.rs compiled against heap-free models of `BTreeMap`, `HashSet` and
`roaring::RoaringBitmap`: decides that the tree map refines a mathematical set of u64."""
import os
from vf import extract as X

MASK = "rust/lance-core/src/utils/mask.rs"
ADDR = "rust/lance-core/src/utils/address.rs"

UNIT = dict(
    engine="kani-transplant",
    deps='vstd = { path = "/verif/models/vstd" }\nroaring = { package = "vroaring_bits", path = "/verif/models/roaring_bits" }',
    encoded={MASK: ["whole file up to #[cfg(test)] except into_arrow/from_arrow/serialize_into/deserialize_from/DeepSizeOf"],
             ADDR: ["whole file"]},
    models=["std::collections::BTreeMap/HashSet -> vstd sorted fixed-capacity array model (capacity 4 entries; exceeding it is a model bound)",
            "roaring::RoaringBitmap -> finite/co-finite sets relative to a symbolic universe of 4 arbitrary u32 row offsets (exact for membership, emptiness, cardinality, union, intersection, difference, full(); leaving the family is a model bound); range insertion is decided in unit mask_l1r against the interval model",
            "deepsize::DeepSizeOf derive/impl removed (memory accounting only)"],
    bounds={"fragments_per_map": "<=2 in the symbolic pre-state (arbitrary u32 fragment ids), capacity 4",
            "bitmap": "each fragment's bitmap is an arbitrary finite or co-finite set w.r.t. 4 symbolic row offsets",
            "probe": "post-conditions are pointwise on an arbitrary u64 row id"},
    outside=["RowIdTreeMap::union_all / RowIdSelection::union_all (collect selections into real Vecs per fragment: RawVec growth ran CBMC out of memory; the pairwise |= it is equivalent to is decided)", "into_arrow/from_arrow (Arrow framing)", "serialize_into/deserialize_from (see unit mask_ser)",
             "sets whose bitmaps need more than 3 intervals", "maps with more than 4 fragments"],
)

ENV = open(os.path.join(os.path.dirname(__file__), "env.rs")).read()

HEADER = """use std::iter;
use std::ops::{Range, RangeBounds};
use vstd::collections::{BTreeMap, HashSet};
use roaring::{MultiOps, RoaringBitmap, RoaringTreemap};
use crate::address::RowAddress;

"""


def build(repo, subs):
    src = X.strip_tests(repo.read(MASK))
    addr = X.strip_tests(repo.read(ADDR))
    body = X.cut_before(src, r"^/// A row id mask to select or deselect particular row ids")
    for rx in (r"^\s*pub fn into_arrow\b", r"^\s*pub fn from_arrow\b", r"^\s*pub fn serialize_into\b",
               r"^\s*pub fn deserialize_from\b", r"^impl DeepSizeOf for RowIdSelection\b"):
        body = X.remove_item(body, rx)
    body = subs.lit(body, "#[derive(Clone, Debug, Default, DeepSizeOf)]", "#[derive(Clone, Debug, Default)]",
                    why="deepsize derive is bookkeeping, not semantics")
    body = subs.lit(body, "#[derive(Clone, Debug, Default, PartialEq, DeepSizeOf)]", "#[derive(Clone, Debug, Default, PartialEq)]",
                    why="deepsize derive is bookkeeping, not semantics")
    mask = HEADER + body + "\n" + ENV
    lib = ("#![allow(dead_code, unused_imports, unused_variables, unused_mut, clippy::all)]\n"
           "pub mod address;\npub mod mask;\npub mod harness;\n")
    return {"src/lib.rs": lib, "src/address.rs": addr, "src/mask.rs": mask}
