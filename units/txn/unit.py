"""TXN: the conflict decision of delete/update transactions, `TransactionRebase::{check_txn,
check_delete_txn, check_update_txn, check_update_mem_wal_state_not_modify_same_mem_wal}`
(lance/src/io/commit/conflict_resolver.rs), against structural models of Transaction / Operation /
Fragment.  The row-level half of the rebase (reading deletion files, `existing & affected`) is async
I/O; its set operations are decided under C21."""
import os
import re
from vf import extract as X

F = "rust/lance/src/io/commit/conflict_resolver.rs"
T = "rust/lance/src/dataset/transaction.rs"

UNIT = dict(
    engine="kani-transplant",
    deps='vstd = { path = "/verif/models/vstd" }',
    encoded={F: ["TransactionRebase::check_txn (dispatch)", "check_delete_txn", "check_update_txn", "check_update_mem_wal_state_txn", "check_update_mem_wal_state_not_modify_same_mem_wal"],
             T: ["enum Operation (variant list, cross-checked against the model)"]},
    models=["Operation -> enum with the same variants carrying only the fields these functions read (fragment lists, removed ids, rewrite groups, replacements, MemWal lists); Transaction -> {operation}",
            "Fragment -> {id, files: abstract identity of its data-file list, deletion_file: Option<abstract id>}; MemWal -> {id}",
            "HashMap/HashSet/Vec -> vstd models (capacity 4); affected_rows: Option<&RowIdTreeMap> -> Option<()> (only is_none() is read here)",
            "retryable_conflict_err / incompatible_conflict_err / wrong_operation_err -> unit-like errors (format! payloads dropped)",
            "the other check_*_txn functions that check_txn dispatches to -> stubs that are never reached (self is Delete or Update)"],
    bounds={"self": "a Delete or Update transaction that updated <=1 and removed <=1 fragment (ids from {0,1}), with or without row-level information",
            "other": "any operation kind; Delete/Update with <=1 updated and <=1 removed fragment; Rewrite with one group of <=1 old fragment; DataReplacement with <=1 replacement"},
    outside=["finish_delete_update (deletion-file I/O and the row-level intersection)", "check_rewrite/create_index/data_replacement/... (index metadata, frag-reuse indices)", "that commit_transaction calls check_txn for every concurrent transaction"],
)

ENV = open(os.path.join(os.path.dirname(__file__), "env.rs")).read()
VARIANTS = ["Append", "Delete", "Overwrite", "CreateIndex", "Rewrite", "DataReplacement", "Merge", "Restore", "ReserveFragments",
            "Update", "Project", "UpdateConfig", "UpdateMemWalState", "Clone", "UpdateBases"]


def build(repo, subs):
    src = X.strip_tests(repo.read(F))
    t = repo.read(T)
    en = X.extract_item(t, r"^pub enum Operation\b")
    found = re.findall(r"^    (\w+)\s*(?:\{|\()", X.mask_code(en), re.M)
    if sorted(set(found)) != sorted(VARIANTS):
        raise X.Inconclusive(f"Operation variants changed: {sorted(set(found))}")
    impl = X.extract_item(src, r"^impl<'a> TransactionRebase<'a> \{")
    fns = {n: X.extract_item(impl, r"^\s*(pub )?fn %s\b" % n) for n in
           ("check_txn", "check_delete_txn", "check_update_txn", "check_update_mem_wal_state_txn", "check_update_mem_wal_state_not_modify_same_mem_wal")}
    f = fns["check_update_mem_wal_state_not_modify_same_mem_wal"]
    f = subs.rx(f, r"Error::Internal \{\s*message: format!\(.*?\),\s*location: location!\(\),\s*\}", "Error::Internal", flags=re.S, why="error payload dropped")
    f = subs.rx(f, r"Error::NotSupported \{\s*source: format!\(.*?\)\s*\.into\(\),\s*location: location!\(\),\s*\}", "Error::NotSupported", flags=re.S, why="error payload dropped")
    fns["check_update_mem_wal_state_not_modify_same_mem_wal"] = f
    body = "\n\n".join(fns[n] for n in fns)
    n_loc = body.count("location!()")
    body = subs.lit(body, "location!()", "()", count=n_loc, why="location!() -> ()")
    text = f"""use crate::env::*;
use vstd::collections::{{HashMap, HashSet}};

pub struct TransactionRebase<'a> {{
    pub transaction: Transaction,
    pub initial_fragments: HashMap<u64, (Fragment, bool)>,
    pub modified_fragment_ids: HashSet<u64>,
    pub affected_rows: Option<&'a ()>,
}}

impl<'a> TransactionRebase<'a> {{
{body}

    // ---- model: error constructors and the dispatch targets that are not part of this unit ----
    fn retryable_conflict_err(&self, _o: &Transaction, _v: u64, _l: ()) -> Error {{ Error::RetryableCommitConflict }}
    fn incompatible_conflict_err(&self, _o: &Transaction, _v: u64, _l: ()) -> Error {{ Error::CommitConflict }}
{STUBS}
}}

fn wrong_operation_err(_op: &Operation) -> Error {{ Error::Internal }}
"""
    lib = ("#![allow(dead_code, unused_imports, unused_variables, unused_mut, clippy::all)]\n"
           "pub mod env;\npub mod resolver;\npub mod harness;\n")
    return {"src/lib.rs": lib, "src/resolver.rs": text, "src/env.rs": ENV}


STUBS = "\n".join(
    f"    fn {n}(&mut self, _o: &Transaction, _v: u64) -> Result<()> {{ vnd::model_bound(false); Ok(()) }}"
    for n in ("check_create_index_txn", "check_rewrite_txn", "check_overwrite_txn", "check_append_txn", "check_data_replacement_txn",
              "check_merge_txn", "check_restore_txn", "check_reserve_fragments_txn", "check_project_txn", "check_update_config_txn",
              "check_add_bases_txn"))
