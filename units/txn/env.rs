//! Structural models of the transaction types the conflict rules read.
use vstd::cvec::Vec;

#[derive(Debug, PartialEq)]
pub enum Error {
    RetryableCommitConflict,
    CommitConflict,
    Internal,
    NotSupported,
}
pub type Result<T> = std::result::Result<T, Error>;

#[derive(Debug, Clone, Default, PartialEq)]
pub struct Fragment {
    pub id: u64,
    /// abstract identity of the fragment's list of data files (only compared)
    pub files: u8,
    /// abstract identity of the deletion file, if any (only compared)
    pub deletion_file: Option<u8>,
}

#[derive(Debug, Clone, Default, PartialEq)]
pub struct RewriteGroup {
    pub old_fragments: Vec<Fragment>,
    pub new_fragments: Vec<Fragment>,
}

#[derive(Debug, Clone, Default, PartialEq)]
pub struct MemWal {
    pub id: u8,
}

#[derive(Debug, Clone)]
pub enum Operation {
    Append { fragments: Vec<Fragment> },
    Delete { updated_fragments: Vec<Fragment>, deleted_fragment_ids: Vec<u64>, predicate: () },
    Overwrite { fragments: Vec<Fragment> },
    CreateIndex { new_indices: (), removed_indices: () },
    Rewrite { groups: Vec<RewriteGroup>, rewritten_indices: (), frag_reuse_index: () },
    DataReplacement { replacements: Vec<(u64, u8)> },
    Merge { fragments: Vec<Fragment> },
    Restore { version: u64 },
    ReserveFragments { num_fragments: u32 },
    Update { removed_fragment_ids: Vec<u64>, updated_fragments: Vec<Fragment>, new_fragments: Vec<Fragment>, mem_wal_to_merge: Option<MemWal> },
    Project { schema: () },
    UpdateConfig { config: () },
    UpdateMemWalState { added: Vec<MemWal>, updated: Vec<MemWal>, removed: Vec<MemWal> },
    Clone { is_shallow: bool },
    UpdateBases { new_bases: () },
}

#[derive(Debug, Clone)]
pub struct Transaction {
    pub operation: Operation,
}
