//! C04 harness: a delete/update transaction never slips past a concurrent transaction that touched
//! the same fragments without either a conflict or the bookkeeping the row-level rebase relies on.
use crate::env::*;
use crate::resolver::TransactionRebase;
use vnd::harness;
use vstd::collections::{HashMap, HashSet};
use vstd::cvec::Vec;

fn any_fragment() -> Fragment {
    let id: u64 = vnd::any();
    vnd::assume(id <= 1);
    Fragment { id, files: vnd::any(), deletion_file: if vnd::any::<bool>() { Some(vnd::any()) } else { None } }
}

fn any_fragments(max: usize) -> Vec<Fragment> {
    let mut v = Vec::new();
    let n: usize = vnd::any();
    vnd::assume(n <= max && max <= 2);
    if n >= 1 {
        v.push(any_fragment());
    }
    if n >= 2 {
        let f = any_fragment();
        vnd::assume(f.id != v[0].id);
        v.push(f);
    }
    v
}

fn any_ids(max: usize) -> Vec<u64> {
    let mut v = Vec::new();
    let n: usize = vnd::any();
    vnd::assume(n <= max && max <= 2);
    let ids: [u64; 2] = vnd::any();
    vnd::assume(ids[0] <= 1 && ids[1] <= 1 && ids[0] != ids[1]);
    if n >= 1 {
        v.push(ids[0]);
    }
    if n >= 2 {
        v.push(ids[1]);
    }
    v
}

fn touches(frags: &Vec<Fragment>, ids: &Vec<u64>, f: u64) -> bool {
    let mut r = false;
    for x in frags.iter() {
        if x.id == f {
            r = true;
        }
    }
    for x in ids.iter() {
        if *x == f {
            r = true;
        }
    }
    r
}

/// `self`: a Delete or Update that modified the fragments in `mine` (as TransactionRebase::try_new
/// sets it up: modified ids = updated ∪ removed; initial_fragments = the modified fragments as they were
/// at the read version, unless row-level information is missing)
fn any_self<'a>(unit: &'a (), is_update: bool) -> (TransactionRebase<'a>, Vec<Fragment>, Vec<u64>, bool) {
    let updated = any_fragments(1);
    let removed = any_ids(1);
    let has_rows: bool = vnd::any();
    let mut modified = HashSet::new();
    let mut initial: HashMap<u64, (Fragment, bool)> = HashMap::new();
    for f in updated.iter() {
        modified.insert(f.id);
        if has_rows {
            // the fragment as this transaction read it
            initial.insert(f.id, (Fragment { id: f.id, files: vnd::any(), deletion_file: if vnd::any::<bool>() { Some(vnd::any()) } else { None } }, false));
        }
    }
    for id in removed.iter() {
        modified.insert(*id);
        if has_rows && !initial.contains_key(id) {
            initial.insert(*id, (Fragment { id: *id, files: vnd::any(), deletion_file: None }, false));
        }
    }
    let operation = if is_update {
        Operation::Update { removed_fragment_ids: removed.clone(), updated_fragments: updated.clone(), new_fragments: Vec::new(), mem_wal_to_merge: if vnd::any::<bool>() { Some(MemWal { id: vnd::any() }) } else { None } }
    } else {
        Operation::Delete { updated_fragments: updated.clone(), deleted_fragment_ids: removed.clone(), predicate: () }
    };
    (
        TransactionRebase { transaction: Transaction { operation }, initial_fragments: initial, modified_fragment_ids: modified, affected_rows: if has_rows { Some(unit) } else { None } },
        updated,
        removed,
        has_rows,
    )
}

// @harness props=C04 tier=quick timeout=1200 desc="Update vs a committed Update: disjoint fragments pass; a common fragment gives a retryable conflict unless row-level information exists, the other side left the data files alone and did not remove the fragment -- and then every common fragment whose deletion file changed is marked for rewrite (what the row-level rebase needs)"
harness!(update_vs_update, 7, {
    du_vs_du(true, true);
});

// @harness props=C04 tier=thorough timeout=1200 desc="same: Update vs a committed Delete"
harness!(update_vs_delete, 7, {
    du_vs_du(true, false);
});

// @harness props=C04 tier=thorough timeout=1200 desc="same: Delete vs a committed Update"
harness!(delete_vs_update, 7, {
    du_vs_du(false, true);
});

// @harness props=C04 tier=quick timeout=1200 desc="same: Delete vs a committed Delete"
harness!(delete_vs_delete, 7, {
    du_vs_du(false, false);
});

fn du_vs_du(self_is_update: bool, other_is_update: bool) {
    let unit = ();
    let (mut me, my_updated, my_removed, has_rows) = any_self(&unit, self_is_update);
    let other_updated = any_fragments(1);
    let other_removed = any_ids(1);
    let other = Transaction {
        operation: if other_is_update {
            Operation::Update { removed_fragment_ids: other_removed.clone(), updated_fragments: other_updated.clone(), new_fragments: Vec::new(), mem_wal_to_merge: None }
        } else {
            Operation::Delete { updated_fragments: other_updated.clone(), deleted_fragment_ids: other_removed.clone(), predicate: () }
        },
    };
    let before = me.initial_fragments.clone();
    let r = me.check_txn(&other, 7);
    // a fragment both sides touched?
    let f: u64 = vnd::any();
    vnd::assume(f <= 1);
    let mine = touches(&my_updated, &my_removed, f);
    let theirs = touches(&other_updated, &other_removed, f);
    let mut any_common = false;
    let mut g = 0u64;
    while g <= 1 {
        if touches(&my_updated, &my_removed, g) && touches(&other_updated, &other_removed, g) {
            any_common = true;
        }
        g += 1;
    }
    vnd::cover!(r.is_ok() && any_common, "accepted although a fragment is shared (row-level rebase)");
    vnd::cover!(r == Err(Error::RetryableCommitConflict), "retryable conflict");
    if !any_common {
        assert!(r.is_ok());
    } else if !has_rows {
        assert!(r == Err(Error::RetryableCommitConflict));
    }
    if r.is_ok() && mine && theirs {
        // accepted with the shared fragment f: only possible with row-level information, ...
        assert!(has_rows);
        // ... the other side must not have removed it, ...
        assert!(!touches(&Vec::new(), &other_removed, f));
        // ... it must have left the data files as this transaction read them, and a changed deletion file is flagged
        for u in other_updated.iter() {
            if u.id == f {
                match (before.get(&f), me.initial_fragments.get(&f)) {
                    (Some((orig, _)), Some((_, needs_rewrite))) => {
                        assert!(orig.files == u.files);
                        assert!(*needs_rewrite || u.deletion_file == orig.deletion_file);
                    }
                    _ => assert!(false),
                }
            }
        }
    }
    // never the non-retryable kind between deletes and updates
    assert!(r != Err(Error::CommitConflict));
}

fn du_vs_kind(kind: u8) {
    let unit = ();
    let is_update: bool = vnd::any();
    let (mut me, my_updated, my_removed, _has_rows) = any_self(&unit, is_update);
    let my_wal = match &me.transaction.operation {
        Operation::Update { mem_wal_to_merge: Some(w), .. } => Some(w.id),
        _ => None,
    };
    let old = any_fragments(1);
    let repl = any_ids(1);
    let wal: u8 = vnd::any();
    let wal_in_added: bool = vnd::any();
    let other = Transaction {
        operation: match kind {
            0 => Operation::Append { fragments: Vec::new() },
            1 => Operation::Overwrite { fragments: Vec::new() },
            2 => Operation::CreateIndex { new_indices: (), removed_indices: () },
            3 => {
                let mut groups = Vec::new();
                groups.push(RewriteGroup { old_fragments: old.clone(), new_fragments: Vec::new() });
                Operation::Rewrite { groups, rewritten_indices: (), frag_reuse_index: () }
            }
            4 => {
                let mut r = Vec::new();
                for id in repl.iter() {
                    r.push((*id, 0u8));
                }
                Operation::DataReplacement { replacements: r }
            }
            5 => Operation::Merge { fragments: Vec::new() },
            6 => Operation::Restore { version: 1 },
            7 => Operation::ReserveFragments { num_fragments: 1 },
            8 => Operation::Project { schema: () },
            9 => Operation::UpdateConfig { config: () },
            10 => {
                let mut l = Vec::new();
                l.push(MemWal { id: wal });
                if wal_in_added {
                    Operation::UpdateMemWalState { added: l, updated: Vec::new(), removed: Vec::new() }
                } else {
                    Operation::UpdateMemWalState { added: Vec::new(), updated: l, removed: Vec::new() }
                }
            }
            _ => Operation::Clone { is_shallow: true },
        },
    };
    let r = me.check_txn(&other, 7);
    let mut shared_old = false;
    for o in old.iter() {
        if touches(&my_updated, &my_removed, o.id) {
            shared_old = true;
        }
    }
    let mut shared_repl = false;
    for id in repl.iter() {
        if touches(&my_updated, &my_removed, *id) {
            shared_repl = true;
        }
    }
    vnd::cover!(r.is_ok() || r.is_err(), "reached");
    match kind {
        3 => assert!(r == if shared_old { Err(Error::RetryableCommitConflict) } else { Ok(()) }),
        4 => assert!(r == if shared_repl { Err(Error::RetryableCommitConflict) } else { Ok(()) }),
        5 => assert!(r == Err(Error::RetryableCommitConflict)),
        1 | 6 => assert!(r == Err(Error::CommitConflict)),
        10 => {
            if is_update {
                assert!(r == if my_wal == Some(wal) { Err(Error::CommitConflict) } else { Ok(()) });
            } else {
                assert!(r == Err(Error::CommitConflict));
            }
        }
        _ => assert!(r.is_ok()),
    }
}

// @harness props=C04 tier=thorough timeout=900 desc="Delete/Update vs a committed append: passes"
harness!(delete_update_vs_append, 7, {
    du_vs_kind(0);
});

// @harness props=C04 tier=quick timeout=900 desc="Delete/Update vs a committed overwrite: incompatible"
harness!(delete_update_vs_overwrite, 7, {
    du_vs_kind(1);
});

// @harness props=C04 tier=thorough timeout=900 desc="Delete/Update vs a committed create_index: passes"
harness!(delete_update_vs_create_index, 7, {
    du_vs_kind(2);
});

// @harness props=C04 tier=thorough timeout=3000 desc="Delete/Update vs a committed rewrite: retryable iff it compacts a fragment this transaction modified"
harness!(delete_update_vs_rewrite, 7, {
    du_vs_kind(3);
});

// @harness props=C04 tier=thorough timeout=900 desc="Delete/Update vs a committed data_replacement: retryable iff it replaces data in a fragment this transaction modified"
harness!(delete_update_vs_data_replacement, 7, {
    du_vs_kind(4);
});

// @harness props=C04 tier=quick timeout=900 desc="Delete/Update vs a committed merge: retryable"
harness!(delete_update_vs_merge, 7, {
    du_vs_kind(5);
});

// @harness props=C04 tier=thorough timeout=900 desc="Delete/Update vs a committed restore: incompatible"
harness!(delete_update_vs_restore, 7, {
    du_vs_kind(6);
});

// @harness props=C04 tier=thorough timeout=900 desc="Delete/Update vs a committed reserve_fragments: passes"
harness!(delete_update_vs_reserve_fragments, 7, {
    du_vs_kind(7);
});

// @harness props=C04 tier=thorough timeout=900 desc="Delete/Update vs a committed project: passes"
harness!(delete_update_vs_project, 7, {
    du_vs_kind(8);
});

// @harness props=C04 tier=thorough timeout=900 desc="Delete/Update vs a committed update_config: passes"
harness!(delete_update_vs_update_config, 7, {
    du_vs_kind(9);
});

// @harness props=C04 tier=thorough timeout=900 desc="Delete/Update vs a committed update_mem_wal_state: incompatible for a Delete; for an Update incompatible iff it touches the MemWAL being merged"
harness!(delete_update_vs_update_mem_wal_state, 7, {
    du_vs_kind(10);
});

// @harness props=C04 tier=thorough timeout=900 desc="Delete/Update vs a committed clone: passes"
harness!(delete_update_vs_clone, 7, {
    du_vs_kind(11);
});


fn wal_list(present: bool, id: u8) -> Vec<MemWal> {
    let mut v = Vec::new();
    if present {
        v.push(MemWal { id });
    }
    v
}

// @harness props=C39 tier=quick timeout=1200 desc="UpdateMemWalState vs a committed UpdateMemWalState (each side adds <=1 and updates <=1 MemWAL): if both sides add or update the same MemWAL the later one is rejected as incompatible; trims (nothing added/updated) and changes to different MemWALs pass"
harness!(memwal_vs_memwal, 7, {
    let ids: [u8; 4] = vnd::any();
    let present: [bool; 4] = vnd::any();
    let mine = Operation::UpdateMemWalState { added: wal_list(present[0], ids[0]), updated: wal_list(present[1], ids[1]), removed: Vec::new() };
    let theirs = Operation::UpdateMemWalState { added: wal_list(present[2], ids[2]), updated: wal_list(present[3], ids[3]), removed: Vec::new() };
    let mut me = TransactionRebase { transaction: Transaction { operation: mine }, initial_fragments: HashMap::new(), modified_fragment_ids: HashSet::new(), affected_rows: None };
    let r = me.check_txn(&Transaction { operation: theirs }, 7);
    let mut same = false;
    let mut i = 0;
    while i < 2 {
        let mut j = 2;
        while j < 4 {
            if present[i] && present[j] && ids[i] == ids[j] {
                same = true;
            }
            j += 1;
        }
        i += 1;
    }
    let i_trim = !present[0] && !present[1];
    let they_trim = !present[2] && !present[3];
    vnd::cover!(same && r.is_err(), "the same MemWAL on both sides");
    vnd::cover!(!same && present[0] && present[3] && r.is_ok(), "different MemWALs");
    if i_trim || they_trim {
        assert!(r.is_ok());
    } else {
        assert!(r == if same { Err(Error::CommitConflict) } else { Ok(()) });
    }
});

// @harness props=C39 tier=quick timeout=1200 desc="UpdateMemWalState vs every other committed operation kind: data-changing operations (Append, Overwrite, Delete, DataReplacement, Merge, Restore, Clone, Project, Update without a MemWAL merge) are incompatible; UpdateConfig, Rewrite, CreateIndex, ReserveFragments, UpdateBases and an Update that merges a MemWAL pass"
harness!(memwal_vs_others, 7, {
    let mine = Operation::UpdateMemWalState { added: wal_list(true, vnd::any()), updated: Vec::new(), removed: Vec::new() };
    let mut me = TransactionRebase { transaction: Transaction { operation: mine }, initial_fragments: HashMap::new(), modified_fragment_ids: HashSet::new(), affected_rows: None };
    let kind: u8 = vnd::any();
    vnd::assume(kind < 14);
    let merges: bool = vnd::any();
    let other = match kind {
        0 => Operation::Append { fragments: Vec::new() },
        1 => Operation::Overwrite { fragments: Vec::new() },
        2 => Operation::Delete { updated_fragments: Vec::new(), deleted_fragment_ids: Vec::new(), predicate: () },
        3 => Operation::DataReplacement { replacements: Vec::new() },
        4 => Operation::Merge { fragments: Vec::new() },
        5 => Operation::Restore { version: 1 },
        6 => Operation::Clone { is_shallow: false },
        7 => Operation::Project { schema: () },
        8 => Operation::Update { removed_fragment_ids: Vec::new(), updated_fragments: Vec::new(), new_fragments: Vec::new(), mem_wal_to_merge: if merges { Some(MemWal { id: vnd::any() }) } else { None } },
        9 => Operation::UpdateConfig { config: () },
        10 => Operation::Rewrite { groups: Vec::new(), rewritten_indices: (), frag_reuse_index: () },
        11 => Operation::CreateIndex { new_indices: (), removed_indices: () },
        12 => Operation::ReserveFragments { num_fragments: 1 },
        _ => Operation::UpdateBases { new_bases: () },
    };
    let r = me.check_txn(&Transaction { operation: other }, 7);
    vnd::cover!(kind == 8 && merges, "an Update that merges a MemWAL");
    match kind {
        0..=7 => assert!(r == Err(Error::CommitConflict)),
        8 => assert!(r == if merges { Ok(()) } else { Err(Error::CommitConflict) }),
        _ => assert!(r.is_ok()),
    }
});
