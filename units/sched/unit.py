"""SCHED: the range planning (coalesce, split) and reassembly (un-coalesce, un-split) logic of
`FileScheduler::submit_request` (lance-io/src/scheduler.rs).  The function body is lifted verbatim in
two pieces -- the synchronous planning part and the body of its `async move` block -- into one
synchronous function; the only thing between them, the awaited read
`self.root.submit_request(reader, updated_requests, priority)`, becomes `fetch`, which returns for every
planned range exactly that range of an abstract file."""
import os
import re
from vf import extract as X

F = "rust/lance-io/src/scheduler.rs"

UNIT = dict(
    engine="kani-transplant",
    deps='vstd = { path = "/verif/models/vstd" }',
    encoded={F: ["fn is_close_together", "fn is_overlapping",
                 "FileScheduler::submit_request: merge loop, split loop (planning) and the reassembly loop of its async block"]},
    models=["Vec -> vstd::cvec fixed-capacity contiguous vector",
            "bytes::Bytes -> a buffer is the contiguous range (offset,len) of an abstract file it holds, or a sticky `bad` mark once non-adjacent bytes were glued together; slice/len/extend_from_slice/From<Vec<u8>> defined on that",
            "self.root.submit_request(..).await (the actual reads, I/O queue) -> fetch(): one buffer per planned range holding exactly that file range",
            "self.root.stats.record_request -> dropped (statistics only)"],
    bounds={"requests": "k <= 2 (quick) / 3 (thorough) requested ranges, sorted by start (documented caller contract), start <= end, empty ranges included",
            "offsets": "< 2^8 (quick) / 2^16 and 2^32 (thorough); block_size arbitrary below the same limit; max_iop_size >= 1",
            "planned ranges": "<= 4 (quick) / 16 (thorough) (vector model capacity; more is a model bound)"},
    outside=["priority arithmetic", "the I/O queue, back-pressure, completion order, cancellation (concurrency; not encodable)", "unsorted request lists"],
)

ENV = open(os.path.join(os.path.dirname(__file__), "env.rs")).read()


def build(repo, subs):
    src = X.strip_tests(repo.read(F))
    close = X.extract_item(src, r"^fn is_close_together\b")
    over = X.extract_item(src, r"^fn is_overlapping\b")
    impl = X.extract_item(src, r"^impl FileScheduler \{")
    fn = X.extract_item(impl, r"^\s*pub fn submit_request\b")
    m1 = re.search(r"^\s*let mut merged_requests = Vec::with_capacity\(request\.len\(\)\);\n", fn, re.M)
    m2 = re.search(r"^\s*self\.root\.stats\.record_request\(&updated_requests\);\n", fn, re.M)
    m3 = re.search(r"^\s*let mut updated_index = 0;\n\s*let mut final_bytes = Vec::with_capacity\(request\.len\(\)\);\n", fn, re.M)
    m4 = re.search(r"^\s*let bytes_vec = bytes_vec_fut\.await\?;\n", fn, re.M)
    m5 = re.search(r"^\s*Ok\(final_bytes\)\n", fn, re.M)
    if not (m1 and m2 and m3 and m4 and m5 and m1.start() < m2.start() < m3.start() < m4.start() < m5.start()):
        raise X.Inconclusive("submit_request no longer has the expected planning / await / reassembly structure")
    between = fn[m2.end():m3.start()]
    if not re.fullmatch(r"\s*let bytes_vec_fut =\s*self\.root\s*\.submit_request\(self\.reader\.clone\(\), updated_requests\.clone\(\), priority\);\s*", between):
        raise X.Inconclusive("unexpected code between planning and reassembly: " + between.strip()[:200])
    if not re.fullmatch(r"\s*async move \{\s*", fn[m3.end():m4.start()]):
        raise X.Inconclusive("unexpected code before the awaited read")
    planning = fn[m1.start():m2.start()]
    reassembly = fn[m4.end():m5.start()]
    planning = subs.lit(planning, "self.block_size", "block_size", why="field -> parameter")
    planning = subs.lit(planning, "self.max_iop_size", "max_iop_size", why="field -> parameter")
    reassembly = subs.lit(reassembly, "let mut merged_bytes = Vec::with_capacity(orig_size as usize);",
                          "let mut merged_bytes = crate::env::RunBuf::with_capacity(orig_size as usize);", why="Vec<u8> copy buffer -> run list")
    body = f"""use std::ops::Range;
use vstd::cvec::Vec;
use crate::env::{{fetch, Bytes}};

{close}

{over}

/// planning + reassembly of `FileScheduler::submit_request`, lifted verbatim (see unit.py)
pub fn submit_request_sync(request: Vec<Range<u64>>, block_size: u64, max_iop_size: u64) -> (Vec<Range<u64>>, Vec<Bytes>) {{
{planning}
    let bytes_vec = fetch(&updated_requests);
{fn[m3.start():m3.end()]}
{reassembly}
    (updated_requests, final_bytes)
}}
"""
    lib = ("#![allow(dead_code, unused_imports, unused_variables, unused_mut, clippy::all)]\n"
           "pub mod env;\npub mod scheduler;\npub mod harness;\n")
    return {"src/lib.rs": lib, "src/scheduler.rs": body, "src/env.rs": ENV}
