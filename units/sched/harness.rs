//! C30 harnesses: one buffer per requested range, in order, holding that range of the file.
use crate::scheduler::submit_request_sync;
use core::ops::Range;
use vstd::cvec::Vec;
use vnd::harness;

/// offsets are drawn from `W`-bit integers and widened, so that the upper bits are constant zero for
/// the solver (the two 64-bit divisions per planned range then cost a W-bit divider)
macro_rules! gen_check {
    ($name:ident, $w:ty) => {
        fn $name(k: usize) {
            let n: usize = vnd::any();
            vnd::assume(n <= k);
            let s: [$w; 3] = vnd::any();
            let e: [$w; 3] = vnd::any();
            let mut i = 0;
            while i < 3 {
                vnd::assume(s[i] <= e[i]);
                i += 1;
            }
            // documented contract of the callers: sorted by start
            vnd::assume(s[0] <= s[1] && s[1] <= s[2]);
            let ranges: [Range<u64>; 3] = [s[0] as u64..e[0] as u64, s[1] as u64..e[1] as u64, s[2] as u64..e[2] as u64];
            let block_size = vnd::any::<$w>() as u64;
            let max_iop = vnd::any::<$w>() as u64;
            vnd::assume(max_iop >= 1);
            let mut req = Vec::new();
            let mut i = 0;
            while i < 3 {
                if i < n {
                    req.push(ranges[i].clone());
                }
                i += 1;
            }
            let (planned, bufs) = submit_request_sync(req, block_size, max_iop);
            vnd::cover!(n == k && planned.len() >= 3, "a request split into three reads");
            // exactly one buffer per requested range, in request order, holding the file's bytes for that range
            assert!(bufs.len() == n);
            let mut j = 0;
            while j < 3 {
                if j < n {
                    assert!(bufs[j].verif_is_file_range(ranges[j].start, ranges[j].end));
                }
                j += 1;
            }
        }
    };
}
gen_check!(check8, u8);
gen_check!(check16, u16);
gen_check!(check32, u32);

// @harness props=C30 tier=quick timeout=600 desc="a single requested range (possibly empty) of offsets < 2^16 with any block size / max request size: exactly one buffer holding that range (split and re-joined when larger than the max request size)"
harness!(submit_one_range_16bit, 6, {
    check16(1);
});

// @harness props=C30 tier=thorough timeout=1800 desc="<=2 requested ranges (empty, overlapping, contained, adjacent, far apart), offsets < 2^8, any block size / max request size: one buffer per range, in order, with that range's bytes"
harness!(submit_two_ranges_8bit, 6, {
    check8(2);
});

// @harness props=C30 tier=thorough timeout=3000 desc="<=2 requested ranges, offsets < 2^16"
harness!(submit_two_ranges_16bit, 6, {
    check16(2);
});

// @harness props=C30 tier=thorough timeout=5000 cfg=verif_ccap16 desc="<=3 requested ranges, offsets < 2^32, up to 16 planned reads"
harness!(submit_three_ranges_32bit, 19, {
    check32(3);
});
