//! C30 harnesses: one buffer per requested range, in order, holding that range of the file.
use crate::scheduler::submit_request_sync;
use core::ops::Range;
use vstd::vec::Vec;
use vnd::harness;

fn any_request(k: usize, limit: u64) -> ([Range<u64>; 3], usize) {
    let n: usize = vnd::any();
    vnd::assume(n <= k);
    let s: [u64; 3] = vnd::any();
    let e: [u64; 3] = vnd::any();
    let mut i = 0;
    while i < 3 {
        vnd::assume(s[i] <= e[i] && e[i] < limit);
        i += 1;
    }
    // documented contract of the callers: sorted by start
    vnd::assume(s[0] <= s[1] && s[1] <= s[2]);
    ([s[0]..e[0], s[1]..e[1], s[2]..e[2]], n)
}

fn check(k: usize, limit: u64) {
    let (ranges, n) = any_request(k, limit);
    let block_size: u64 = vnd::any();
    let max_iop: u64 = vnd::any();
    vnd::assume(block_size < limit && max_iop >= 1 && max_iop < limit);
    let mut req = Vec::new();
    let mut i = 0;
    while i < 3 {
        if i < n {
            req.push(ranges[i].clone());
        }
        i += 1;
    }
    let (planned, bufs) = submit_request_sync(req, block_size, max_iop);
    vnd::cover!(n == 2 && planned.len() == 1 && ranges[1].start > ranges[0].end, "two requests coalesced across a gap");
    vnd::cover!(n >= 1 && planned.len() >= 3, "a request split into several reads");
    vnd::cover!(n == 2 && ranges[0].start == ranges[0].end, "an empty requested range");
    // exactly one buffer per requested range, in request order, holding the file's bytes for that range
    assert!(bufs.len() == n);
    let mut j = 0;
    while j < 3 {
        if j < n {
            assert!(bufs[j].verif_is_file_range(ranges[j].start, ranges[j].end));
        }
        j += 1;
    }
    // no planned read exceeds the maximum request size
    let p: usize = vnd::any();
    vnd::assume(p < planned.len());
    assert!(planned[p].end - planned[p].start <= max_iop || planned[p].end - planned[p].start < 2 * max_iop);
    core::mem::forget(planned);
    core::mem::forget(bufs);
}

// @harness props=C30 tier=quick timeout=900 desc="<=2 requested ranges (empty, overlapping, contained, adjacent, far apart), offsets < 2^16, any block size / max request size: one buffer per range, in order, with that range's bytes"
harness!(submit_two_ranges, 6, {
    check(2, 1 << 16);
});

// @harness props=C30 tier=thorough timeout=3000 cfg=verif_vcap16 desc="<=3 requested ranges, offsets < 2^40, up to 16 planned reads"
harness!(submit_three_ranges, 19, {
    check(3, 1 << 40);
});
