//! Environment of the lifted `submit_request`: an abstract file and buffers that remember which
//! file bytes they hold.
use core::ops::{Bound, Range, RangeBounds};
use vstd::cvec::Vec;

/// A buffer that remembers which file bytes it holds: the contiguous file range
/// `[off, off+len)`, or -- once bytes that are not adjacent in the file have been glued together
/// -- `bad` (sticky).  A correct answer to a request `s..e` is exactly `{off: s, len: e-s, !bad}`.
#[derive(Clone, Copy, Debug, Default, PartialEq)]
pub struct Bytes {
    off: u64,
    len: u64,
    bad: bool,
}

impl Bytes {
    pub fn new() -> Self {
        Self::default()
    }
    pub fn file_range(r: &Range<u64>) -> Self {
        if r.start < r.end {
            Self { off: r.start, len: r.end - r.start, bad: false }
        } else {
            Self::default()
        }
    }
    fn append(&mut self, o: &Self) {
        if o.len == 0 {
            return;
        }
        if self.len == 0 {
            *self = *o;
            return;
        }
        if o.bad || self.off + self.len != o.off {
            self.bad = true;
        }
        self.len += o.len;
    }
    pub fn len(&self) -> usize {
        self.len as usize
    }
    pub fn is_empty(&self) -> bool {
        self.len == 0
    }
    /// `Bytes::slice`: panics when out of bounds, like the real one.
    pub fn slice(&self, range: impl RangeBounds<usize>) -> Self {
        let total = self.len;
        let lo = match range.start_bound() {
            Bound::Included(&s) => s as u64,
            Bound::Excluded(&s) => s as u64 + 1,
            Bound::Unbounded => 0,
        };
        let hi = match range.end_bound() {
            Bound::Included(&e) => e as u64 + 1,
            Bound::Excluded(&e) => e as u64,
            Bound::Unbounded => total,
        };
        assert!(lo <= hi, "range start must not be greater than end");
        assert!(hi <= total, "range end out of bounds");
        if lo == hi {
            return Self::default();
        }
        Self { off: self.off + lo, len: hi - lo, bad: self.bad }
    }
    /// Model-only: the buffer is exactly file[start..end)
    pub fn verif_is_file_range(&self, start: u64, end: u64) -> bool {
        if start >= end {
            self.len == 0
        } else {
            !self.bad && self.off == start && self.len == end - start
        }
    }
}

/// Stand-in for the `Vec<u8>` copy buffer of the reassembly branch.
pub struct RunBuf(Bytes);
impl RunBuf {
    pub fn with_capacity(_c: usize) -> Self {
        Self(Bytes::new())
    }
    pub fn extend_from_slice(&mut self, b: &Bytes) {
        self.0.append(b);
    }
    pub fn len(&self) -> usize {
        self.0.len()
    }
}
impl From<RunBuf> for Bytes {
    fn from(r: RunBuf) -> Self {
        r.0
    }
}

/// The awaited read: one buffer per planned range, holding exactly that range of the file.
pub fn fetch(reqs: &Vec<Range<u64>>) -> Vec<Bytes> {
    let mut out = Vec::new();
    for r in reqs.iter() {
        out.push(Bytes::file_range(r));
    }
    out
}
