//! Environment of the lifted `submit_request`: an abstract file and buffers that remember which
//! file bytes they hold.
use core::ops::{Bound, Range, RangeBounds};
use vstd::vec::Vec;

pub const MAXRUN: usize = 2;

/// A buffer = concatenation of at most MAXRUN runs `(file offset, length)`; adjacent runs are fused
/// and empty runs dropped, so a buffer holding file[a..b) is exactly one run (a, b-a).
#[derive(Clone, Copy, Debug, PartialEq)]
pub struct Bytes {
    n: usize,
    off: [u64; MAXRUN],
    len: [u64; MAXRUN],
}

impl Bytes {
    pub fn new() -> Self {
        Self { n: 0, off: [0; MAXRUN], len: [0; MAXRUN] }
    }
    pub fn file_range(r: &Range<u64>) -> Self {
        let mut b = Self::new();
        if r.start < r.end {
            b.push_run(r.start, r.end - r.start);
        }
        b
    }
    fn push_run(&mut self, off: u64, len: u64) {
        if len == 0 {
            return;
        }
        if self.n > 0 && self.off[self.n - 1] + self.len[self.n - 1] == off {
            self.len[self.n - 1] += len;
            return;
        }
        vnd::model_bound(self.n < MAXRUN);
        self.off[self.n] = off;
        self.len[self.n] = len;
        self.n += 1;
    }
    pub fn len(&self) -> usize {
        let mut t = 0u64;
        let mut i = 0;
        while i < MAXRUN {
            if i < self.n {
                t += self.len[i];
            }
            i += 1;
        }
        t as usize
    }
    pub fn is_empty(&self) -> bool {
        self.n == 0
    }
    /// `Bytes::slice`: panics when out of bounds, like the real one.
    pub fn slice(&self, range: impl RangeBounds<usize>) -> Self {
        let total = self.len() as u64;
        let lo = match range.start_bound() {
            Bound::Included(&s) => s as u64,
            Bound::Excluded(&s) => s as u64 + 1,
            Bound::Unbounded => 0,
        };
        let hi = match range.end_bound() {
            Bound::Included(&e) => e as u64 + 1,
            Bound::Excluded(&e) => e as u64,
            Bound::Unbounded => total,
        };
        assert!(lo <= hi, "range start must not be greater than end");
        assert!(hi <= total, "range end out of bounds");
        let mut out = Self::new();
        let mut pos = 0u64;
        let mut i = 0;
        while i < MAXRUN {
            if i < self.n {
                let (o, l) = (self.off[i], self.len[i]);
                let a = if lo > pos { lo } else { pos };
                let b = if hi < pos + l { hi } else { pos + l };
                if a < b {
                    out.push_run(o + (a - pos), b - a);
                }
                pos += l;
            }
            i += 1;
        }
        out
    }
    /// Model-only: the buffer is exactly file[start..end)
    pub fn verif_is_file_range(&self, start: u64, end: u64) -> bool {
        if start >= end {
            self.n == 0
        } else {
            self.n == 1 && self.off[0] == start && self.len[0] == end - start
        }
    }
}

/// Stand-in for the `Vec<u8>` copy buffer of the reassembly branch.
pub struct RunBuf(Bytes);
impl RunBuf {
    pub fn with_capacity(_c: usize) -> Self {
        Self(Bytes::new())
    }
    pub fn extend_from_slice(&mut self, b: &Bytes) {
        let mut i = 0;
        while i < MAXRUN {
            if i < b.n {
                self.0.push_run(b.off[i], b.len[i]);
            }
            i += 1;
        }
    }
    pub fn len(&self) -> usize {
        self.0.len()
    }
}
impl From<RunBuf> for Bytes {
    fn from(r: RunBuf) -> Self {
        r.0
    }
}

/// The awaited read: one buffer per planned range, holding exactly that range of the file.
pub fn fetch(reqs: &Vec<Range<u64>>) -> Vec<Bytes> {
    let mut out = Vec::new();
    for r in reqs.iter() {
        out.push(Bytes::file_range(r));
    }
    out
}
