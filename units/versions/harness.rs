//! C17 harnesses: the run-length list of per-row versions behaves like the expanded per-row list.
use crate::env::SpanLite;
use crate::version::*;
use vnd::harness;
use vstd::cvec::Vec;

/// <=3 runs, lengths 0..=3 (`allow_empty` controls whether zero-length runs may occur), any versions
fn any_sequence(allow_empty: bool) -> (RowDatasetVersionSequence, [usize; 3], [u64; 3], usize) {
    let n: usize = vnd::any();
    vnd::assume(n <= 3);
    let lens: [usize; 3] = vnd::any();
    let vers: [u64; 3] = vnd::any();
    let mut runs = Vec::new();
    let mut i = 0;
    while i < 3 {
        vnd::assume(lens[i] <= 3 && (allow_empty || lens[i] >= 1));
        if i < n {
            let holes: u64 = vnd::any();
            vnd::assume(holes <= 2);
            runs.push(RowDatasetVersionRun { span: SpanLite { n: lens[i], start: vnd::any::<u32>() as u64, extent: lens[i] as u64 + if lens[i] >= 2 { holes } else { 0 } }, version: vers[i] });
        }
        i += 1;
    }
    (RowDatasetVersionSequence { runs }, lens, vers, n)
}

/// version of row `idx` in the expanded list
fn expanded_at(lens: &[usize; 3], vers: &[u64; 3], n: usize, idx: usize) -> Option<u64> {
    let mut off = 0;
    let mut i = 0;
    while i < 3 {
        if i < n {
            if idx < off + lens[i] {
                return Some(vers[i]);
            }
            off += lens[i];
        }
        i += 1;
    }
    None
}

// @harness props=C17 tier=quick timeout=600 desc="version_at / len / is_empty / from_uniform_row_count agree with the expanded per-row list (<=3 runs, lengths 0..=3)"
harness!(version_at_matches_list, 6, {
    let (s, lens, vers, n) = any_sequence(true);
    let idx: usize = vnd::any();
    let total = (if n > 0 { lens[0] } else { 0 }) + (if n > 1 { lens[1] } else { 0 }) + (if n > 2 { lens[2] } else { 0 });
    vnd::cover!(n == 3 && lens[1] == 0 && idx == lens[0], "a row right after an empty run");
    assert!(s.len() == total as u64);
    assert!(s.is_empty() == (total == 0));
    assert!(s.version_at(idx) == expanded_at(&lens, &vers, n, idx));
    let (rows, v): (u64, u64) = (vnd::any(), vnd::any());
    let u = RowDatasetVersionSequence::from_uniform_row_count(rows, v);
    assert!(u.len() == rows && u.is_empty() == (rows == 0));
    assert!(u.version_at(idx) == if (idx as u64) < rows { Some(v) } else { None });
});

// @harness props=C17 tier=quick timeout=900 desc="versions() yields exactly the expanded per-row list: len() items, the i-th equal to version_at(i) (representation invariant: runs are non-empty, as mask() and the builders maintain)"
harness!(versions_iter_matches_list, 12, {
    let (s, lens, vers, n) = any_sequence(false);
    let mut k = 0usize;
    for v in s.versions() {
        assert!(Some(v) == expanded_at(&lens, &vers, n, k));
        k += 1;
    }
    vnd::cover!(k == 7, "seven rows over three runs");
    assert!(k as u64 == s.len());
});

// @harness props=C17 tier=quick timeout=900 desc="mask(positions): the remaining rows keep their versions, in order (<=2 ascending distinct positions); emptied runs are dropped"
harness!(mask_removes_rows, 8, {
    let (mut s, lens, vers, n) = any_sequence(false);
    let total = s.len() as usize;
    let np: usize = vnd::any();
    vnd::assume(np <= 2);
    let p: [u32; 2] = vnd::any();
    vnd::assume(np < 1 || (p[0] as usize) < total);
    vnd::assume(np < 2 || (p[0] < p[1] && (p[1] as usize) < total));
    let mut pos = Vec::new();
    if np >= 1 {
        pos.push(p[0]);
    }
    if np >= 2 {
        pos.push(p[1]);
    }
    let r = s.mask(pos);
    assert!(r.is_ok());
    let k: usize = vnd::any();
    vnd::assume(k < 16);
    // the k-th remaining row is old row j = k + (number of masked positions <= j)
    let mut j = k;
    if np >= 1 && (p[0] as usize) <= j {
        j += 1;
    }
    if np >= 2 && (p[1] as usize) <= j {
        j += 1;
    }
    vnd::cover!(np == 2 && n == 3 && s.runs.len() == 2, "a run emptied by the mask is dropped");
    assert!(s.len() as usize == total - np);
    assert!(s.version_at(k) == if k < total - np { expanded_at(&lens, &vers, n, j) } else { None });
});
