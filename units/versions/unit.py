"""VERSIONS: the per-row version run list of lance-table/src/rowids/version.rs
(RowDatasetVersionRun, RowDatasetVersionSequence, VersionsIter)."""
import os
import re
from vf import extract as X

F = "rust/lance-table/src/rowids/version.rs"

UNIT = dict(
    engine="kani-transplant",
    deps='vstd = { path = "/verif/models/vstd" }',
    encoded={F: ["struct RowDatasetVersionRun + impl", "struct RowDatasetVersionSequence", "RowDatasetVersionSequence::{new, from_uniform_row_count, len, is_empty, versions, version_at, mask}",
                 "struct VersionsIter + impl (new, advance_run) + Iterator::next"]},
    models=["U64Segment (the span of a run) -> SpanLite: its length and the interval its ids lie in (len, is_empty, range, Range(a..b) constructor, mask(positions) shortens by the number of positions); spans with holes (extent > len) included; what U64Segment itself does is decided under C34",
            "Vec -> vstd::cvec fixed-capacity contiguous vector (4 runs)", "lance_core::Result -> unit-like"],
    bounds={"runs": "<=3 runs with arbitrary u64 versions and lengths 1..=3 (0..=3 for len/version_at/is_empty); zero-length runs in the middle make versions() yield one spurious item, but no writer produces them and mask() removes them, so non-emptiness is taken as the representation invariant", "mask": "<=2 ascending distinct positions", "unwind": 12},
    outside=["get_version_for_row_id / rows_with_version_greater_than (walk a RowIdSequence)", "protobuf framing (write/read_dataset_versions)", "which version build_manifest assigns at append/update; delta queries (DataFusion filters)"],
)

ENV = '''
#[derive(Debug)]
pub enum Error { Internal }
pub type Result<T> = std::result::Result<T, Error>;

/// length-only stand-in for `U64Segment`
#[derive(Debug, Clone, PartialEq, Eq, Default)]
pub struct SpanLite {
    /// number of ids in the span
    pub n: usize,
    /// the ids lie in start..=start+extent-1; extent > n when the span has holes
    pub start: u64,
    pub extent: u64,
}
#[allow(non_snake_case)]
impl SpanLite {
    pub fn Range(r: core::ops::Range<u64>) -> Self { Self { n: (r.end - r.start) as usize, start: r.start, extent: r.end - r.start } }
    /// like U64Segment::range: min..=max of the ids, None when empty
    pub fn range(&self) -> Option<core::ops::RangeInclusive<u64>> {
        if self.n == 0 { None } else { Some(self.start..=(self.start + self.extent - 1)) }
    }
    pub fn len(&self) -> usize { self.n }
    pub fn is_empty(&self) -> bool { self.n == 0 }
    pub fn mask(&mut self, positions: &[u32]) {
        // U64Segment::mask removes the ids at the given (valid, distinct) positions
        assert!(positions.len() <= self.n);
        self.n -= positions.len();
    }
}
'''


def build(repo, subs):
    src = X.strip_tests(repo.read(F))
    run_s = X.extract_item(src, r"^pub struct RowDatasetVersionRun\b")
    run_i = X.extract_item(src, r"^impl RowDatasetVersionRun \{")
    seq_s = X.extract_item(src, r"^pub struct RowDatasetVersionSequence\b")
    seq_i = X.extract_item(src, r"^impl RowDatasetVersionSequence \{")
    fns = [X.extract_item(seq_i, r"^\s*pub fn %s\b" % n) for n in ("new", "from_uniform_row_count", "len", "is_empty", "versions", "version_at", "mask")]
    it_s = X.extract_item(src, r"^pub struct VersionsIter<'a>")
    it_i = X.extract_item(src, r"^impl<'a> VersionsIter<'a> \{")
    it_n = X.extract_item(src, r"^impl<'a> Iterator for VersionsIter<'a> \{")
    run_s = subs.lit(run_s, "#[derive(Debug, Clone, PartialEq, Eq, DeepSizeOf)]", "#[derive(Debug, Clone, PartialEq, Eq, Default)]", why="deepsize removed; Default needed by the vector model")
    seq_s = subs.lit(seq_s, "#[derive(Debug, Clone, PartialEq, Eq, DeepSizeOf, Default)]", "#[derive(Debug, Clone, PartialEq, Eq, Default)]", why="deepsize removed")
    text = "\n\n".join([run_s, run_i, seq_s, "impl RowDatasetVersionSequence {\n" + "\n\n".join(fns) + "\n}", it_s, it_i, it_n])
    n_seg = len(re.findall(r"\bU64Segment\b", text))
    text = subs.rx(text, r"\bU64Segment\b", "SpanLite", count=n_seg, why="span -> length-only model (layering: U64Segment is decided under C34)")
    n_vec = len(re.findall(r"\bvec!\[run\]", text))
    text = subs.lit(text, "vec![run]", "Vec::verif_filled(run, 1)", count=n_vec, why="vec! -> model constructor")
    body = "use vstd::cvec::Vec;\nuse crate::env::{Result, SpanLite};\n\n" + text + "\n"
    lib = ("#![allow(dead_code, unused_imports, unused_variables, unused_mut, clippy::all)]\n"
           "pub mod env;\npub mod version;\npub mod harness;\n")
    return {"src/lib.rs": lib, "src/version.rs": body, "src/env.rs": ENV}
