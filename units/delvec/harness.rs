//! C15 harnesses: row addresses, deletion vectors, logical offset -> physical offset.
use crate::address::RowAddress;
use crate::deletion::{DeletionVector, OffsetMapper};
use roaring::RoaringBitmap;
use std::sync::Arc;
use vnd::harness;
use vstd::collections::HashSet;

// @harness props=C15 tier=quick timeout=300 desc="RowAddress packs (fragment, offset) into u64 and back, order = (fragment, offset) order, address_range is the fragment's id span"
harness!(address_roundtrip, 4, {
    let (f, o): (u32, u32) = (vnd::any(), vnd::any());
    let a = RowAddress::new_from_parts(f, o);
    let raw: u64 = a.into();
    vnd::cover!(f == u32::MAX - 1 && o == u32::MAX, "last usable address");
    assert!(a.fragment_id() == f && a.row_offset() == o);
    assert!(raw == ((f as u64) << 32) + o as u64);
    let b = RowAddress::new_from_u64(raw);
    assert!(b == a && RowAddress::from(raw) == a);
    let (f2, o2): (u32, u32) = (vnd::any(), vnd::any());
    let c = RowAddress::new_from_parts(f2, o2);
    assert!((a < c) == ((f, o) < (f2, o2)));
    assert!(RowAddress::first_row(f).row_offset() == 0 && RowAddress::first_row(f).fragment_id() == f);
    if f < u32::MAX {
        let r = RowAddress::address_range(f);
        assert!(r.contains(&raw));
        assert!(r.end - r.start == RowAddress::FRAGMENT_SIZE);
        assert!(!r.contains(&u64::from(c)) || f2 == f);
    }
});

fn any_bitmap_dv() -> (DeletionVector, RoaringBitmap) {
    let b = RoaringBitmap::verif_any(2);
    (DeletionVector::Bitmap(b), b)
}

fn any_set_dv() -> (DeletionVector, [u32; 3], usize) {
    let vals: [u32; 3] = vnd::any();
    let n: usize = vnd::any();
    vnd::assume(n <= 3);
    vnd::assume(vals[0] < vals[1] && vals[1] < vals[2]);
    let mut s = HashSet::new();
    let mut i = 0;
    while i < 3 {
        if i < n {
            s.verif_push_back(vals[i]);
        }
        i += 1;
    }
    (DeletionVector::Set(s), vals, n)
}

// @harness props=C15 tier=quick timeout=300 desc="DeletionVector variants agree with their contents: contains, len, is_empty, contains_range, range_cardinality (Bitmap variant, whole u32 domain)"
harness!(dv_bitmap_queries, 5, {
    let (dv, b) = any_bitmap_dv();
    let x: u32 = vnd::any();
    let (lo, hi): (u32, u32) = (vnd::any(), vnd::any());
    vnd::cover!(dv.contains(x) && lo < x && x < hi, "a deleted row inside the range");
    assert!(dv.contains(x) == b.contains(x));
    assert!(dv.len() as u64 == b.len() || b.len() > usize::MAX as u64);
    assert!(dv.is_empty() == (b.len() == 0));
    let card = dv.range_cardinality(lo..hi);
    if lo <= x && x < hi && dv.contains(x) {
        assert!(card >= 1);
        // a fully deleted range contains x; a range with a live row is not fully deleted
    }
    if lo <= x && x < hi && !dv.contains(x) {
        assert!(!dv.contains_range(lo..hi));
        assert!(card < (hi - lo) as u64);
    }
    if dv.contains_range(lo..hi) && lo < hi {
        assert!(card == (hi - lo) as u64);
    }
    assert!(card <= if lo < hi { (hi - lo) as u64 } else { 0 });
    assert!(DeletionVector::NoDeletions.range_cardinality(lo..hi) == 0);
    assert!(!DeletionVector::NoDeletions.contains(x) && DeletionVector::NoDeletions.len() == 0);
});

// @harness props=C15 tier=quick timeout=300 desc="Set variant: contains/len agree with the listed values; Set and Bitmap with equal contents compare equal; From<RoaringBitmap> picks NoDeletions iff empty"
harness!(dv_set_queries, 6, {
    let (dv, vals, n) = any_set_dv();
    let x: u32 = vnd::any();
    let expect = (n > 0 && x == vals[0]) || (n > 1 && x == vals[1]) || (n > 2 && x == vals[2]);
    vnd::cover!(expect && n == 3, "member of a 3-element set");
    assert!(dv.contains(x) == expect);
    assert!(dv.len() == n);
    let b = RoaringBitmap::verif_any(2);
    let from = DeletionVector::from(b);
    assert!(matches!(from, DeletionVector::NoDeletions) == b.is_empty());
    assert!(from.contains(x) == b.contains(x));
    core::mem::forget(dv);
});

fn map_offset_setup(limit_bits: u32) -> (DeletionVector, RoaringBitmap, u32, u32) {
    let (dv, b) = any_bitmap_dv();
    let ndel = b.len();
    let limit: u64 = 1u64 << limit_bits;
    let o1: u32 = vnd::any();
    let o2: u32 = vnd::any();
    // documented precondition: non-decreasing offsets, each a valid logical offset of the fragment
    vnd::assume(o1 <= o2);
    vnd::assume((o2 as u64) + ndel < limit);
    if limit_bits < 32 {
        // the fragment has < 2^B rows: deletions lie inside it
        vnd::assume(b.max().map(|m| (m as u64) < limit).unwrap_or(true));
    }
    (dv, b, o1, o2)
}

fn map_offset_case1(limit_bits: u32) {
    let (dv, b, o1, _) = map_offset_setup(limit_bits);
    let mut m = OffsetMapper::new(Arc::new(dv));
    let r1 = m.map_offset(o1);
    vnd::cover!(r1 > o1 + 1 && b.len() > 2, "offset pushed past two deleted runs");
    assert!(!b.contains(r1));
    assert!(r1 as u64 - b.range_cardinality(0..r1) == o1 as u64);
    core::mem::forget(m);
}

fn map_offset_case2(limit_bits: u32) {
    let (dv, b, o1, o2) = map_offset_setup(limit_bits);
    let mut m = OffsetMapper::new(Arc::new(dv));
    let r1 = m.map_offset(o1);
    assert!(!b.contains(r1));
    assert!(r1 as u64 - b.range_cardinality(0..r1) == o1 as u64);
    let r2 = m.map_offset(o2);
    vnd::cover!(r2 > r1 && r2 - r1 > o2 - o1, "second lookup skips further deletions");
    assert!(!b.contains(r2));
    assert!(r2 as u64 - b.range_cardinality(0..r2) == o2 as u64);
    assert!((r1 == r2) == (o1 == o2) && r1 <= r2);
    core::mem::forget(m);
}

// @harness props=C15 tier=quick timeout=600 desc="OffsetMapper::map_offset returns the offset-th live row (not deleted, exactly `offset` live rows before it) and terminates; fragments of < 2^6 rows, one lookup"
harness!(map_offset_small, 10, {
    map_offset_case1(6);
});

// @harness props=C15 tier=quick timeout=600 desc="two successive non-decreasing lookups on one mapper (state reuse), fragments of < 2^4 rows"
harness!(map_offset_pair_tiny, 8, {
    map_offset_case2(4);
});

// @harness props=C15 tier=thorough timeout=1500 desc="same for fragments of < 2^8 rows, one lookup"
harness!(map_offset_8bit, 12, {
    map_offset_case1(8);
});

// @harness props=C15 tier=thorough timeout=1500 desc="same for fragments of < 2^6 rows, two successive lookups"
harness!(map_offset_pair_6bit, 10, {
    map_offset_case2(6);
});

// @harness props=C15 tier=thorough timeout=3000 desc="(attempted; did not finish in 3000 s when last tried) fragments of < 2^32 rows, one lookup (binary search depth 34)"
harness!(map_offset_full, 36, {
    map_offset_case1(32);
});
