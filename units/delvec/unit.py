"""DELVEC: lance-core/src/utils/deletion.rs (DeletionVector, OffsetMapper) and address.rs (RowAddress)."""
import os
from vf import extract as X

DEL = "rust/lance-core/src/utils/deletion.rs"
ADDR = "rust/lance-core/src/utils/address.rs"

UNIT = dict(
    engine="kani-transplant",
    deps='vstd = { path = "/verif/models/vstd" }\nroaring = { package = "vroaring", path = "/verif/models/roaring" }',
    encoded={DEL: ["whole file up to #[cfg(test)] except build_predicate (Arrow BooleanArray) and the DeepSizeOf impl"],
             ADDR: ["whole file"]},
    models=["std::collections::HashSet -> vstd sorted fixed-capacity set (capacity 4)",
            "roaring::RoaringBitmap -> union of <=3 disjoint u32 intervals (exact on the whole u32 domain)",
            "deepsize::DeepSizeOf impl removed (memory accounting only)"],
    bounds={"deletions": "Bitmap variant: arbitrary interval sets of complexity <=2 over the whole u32 domain; Set variant: <=3 arbitrary u32 values",
            "offset mapper": "logical offsets with offset + |deletions| < 2^B: B=6 one lookup and B=4 two successive lookups (quick); B=8 one lookup and B=6 two lookups (thorough; B=10 one lookup did not finish in 1500 s); the full-width B=32 query is kept but did not finish in 3000 s",
            "unwind": "binary search B+3 iterations, unwinding assertion on"},
    outside=["build_predicate (Arrow)", "iter()/into_sorted_iter() over Box<dyn Iterator>", "fragments with 2^32 rows"],
)


def build(repo, subs):
    src = X.strip_tests(repo.read(DEL))
    addr = X.strip_tests(repo.read(ADDR))
    src = X.remove_item(src, r"^impl DeepSizeOf for DeletionVector\b")
    src = X.remove_item(src, r"^\s*pub fn build_predicate\b")
    src = subs.lit(src, "use std::{collections::HashSet, ops::Range, sync::Arc};\n\nuse arrow_array::BooleanArray;\nuse deepsize::{Context, DeepSizeOf};\n",
                   "use std::{ops::Range, sync::Arc};\nuse vstd::collections::HashSet;\n", why="container model; Arrow and deepsize only feed the removed items")
    src += "\nimpl OffsetMapper {\n    pub fn verif_state(&self) -> (u32, u32) { (self.left, self.last_diff) }\n}\n"
    src = subs.lit(src, "    fn range_cardinality(&self, range: Range<u32>) -> u64 {", "    pub fn range_cardinality(&self, range: Range<u32>) -> u64 {",
                   why="visibility only: the harness compares it with the definition by counting")
    lib = ("#![allow(dead_code, unused_imports, unused_variables, unused_mut, clippy::all)]\n"
           "pub mod address;\npub mod deletion;\npub mod harness;\n")
    return {"src/lib.rs": lib, "src/address.rs": addr, "src/deletion.rs": src}
