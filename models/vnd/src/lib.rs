//! Nondeterminism shim shared by every harness.
//!
//! Under Kani (`cfg(kani)`) `any::<T>()` is `kani::any()`, `assume` is `kani::assume`.
//! Natively the same calls read the concrete byte vectors Kani's concrete playback printed
//! (one vector per `kani::any` call, in call order) from the file named by `VERIF_REPLAY_VALUES`,
//! so that one harness body can be decided by the solver and replayed by the normal toolchain.

#[cfg(kani)]
pub fn any<T: kani::Arbitrary>() -> T {
    kani::any()
}

#[cfg(kani)]
pub fn assume(c: bool) {
    kani::assume(c)
}

/// A bound of a *model* (capacity of a container model) rather than of the code under test.
/// Under Kani paths that exceed the bound are cut (and the bound is reported in the evidence);
/// natively it is a distinguishable abort.
#[cfg(kani)]
pub fn model_bound(c: bool) {
    kani::assume(c)
}

#[cfg(all(kani, not(verif_nocover)))]
#[macro_export]
macro_rules! cover {
    ($c:expr, $m:literal) => {
        kani::cover!($c, $m)
    };
}

#[cfg(any(not(kani), verif_nocover))]
#[macro_export]
macro_rules! cover {
    ($c:expr, $m:literal) => {
        let _ = $c;
    };
}

#[cfg(not(kani))]
mod native {
    use std::cell::RefCell;
    use std::collections::VecDeque;

    thread_local! {
        static VALUES: RefCell<Option<VecDeque<Vec<u8>>>> = const { RefCell::new(None) };
    }

    fn load() -> VecDeque<Vec<u8>> {
        let path = std::env::var("VERIF_REPLAY_VALUES").expect("VERIF_REPLAY_VALUES not set");
        let text = std::fs::read_to_string(path).expect("cannot read replay values");
        let mut out = VecDeque::new();
        for line in text.lines() {
            let line = line.trim();
            if line.is_empty() || line.starts_with('#') {
                continue;
            }
            let v: Vec<u8> = line
                .split(',')
                .map(|s| s.trim())
                .filter(|s| !s.is_empty() && *s != "-")
                .map(|s| s.parse::<u8>().expect("bad byte"))
                .collect();
            out.push_back(v);
        }
        out
    }

    pub fn next_bytes(n: usize) -> Vec<u8> {
        VALUES.with(|v| {
            let mut v = v.borrow_mut();
            if v.is_none() {
                *v = Some(load());
            }
            match v.as_mut().unwrap().pop_front() {
                Some(b) => {
                    if b.len() != n {
                        println!("REPLAY-VALUE-MISMATCH wanted {} bytes got {}", n, b.len());
                        std::process::exit(4);
                    }
                    b
                }
                None => {
                    // Kani omits values that do not matter; zero is as good as any.
                    vec![0u8; n]
                }
            }
        })
    }

    pub trait FromReplay: Sized {
        fn from_replay() -> Self;
    }

    macro_rules! int_impl {
        ($($t:ty),*) => {$(
            impl FromReplay for $t {
                fn from_replay() -> Self {
                    let b = next_bytes(std::mem::size_of::<$t>());
                    let mut a = [0u8; std::mem::size_of::<$t>()];
                    a.copy_from_slice(&b);
                    <$t>::from_le_bytes(a)
                }
            }
        )*};
    }
    int_impl!(u8, u16, u32, u64, u128, usize, i8, i16, i32, i64, i128, isize);

    impl FromReplay for bool {
        fn from_replay() -> Self {
            next_bytes(1)[0] != 0
        }
    }
    impl FromReplay for f32 {
        fn from_replay() -> Self {
            f32::from_bits(u32::from_replay())
        }
    }
    impl FromReplay for f64 {
        fn from_replay() -> Self {
            f64::from_bits(u64::from_replay())
        }
    }
    impl<T: FromReplay + Copy + Default, const N: usize> FromReplay for [T; N] {
        fn from_replay() -> Self {
            // kani::any::<[T; N]>() is played back as N element values (measured, Kani 0.68).
            let mut out = [T::default(); N];
            for o in out.iter_mut() {
                *o = T::from_replay();
            }
            out
        }
    }
}

#[cfg(not(kani))]
pub use native::FromReplay;

#[cfg(not(kani))]
pub fn any<T: FromReplay>() -> T {
    T::from_replay()
}

#[cfg(not(kani))]
pub fn assume(c: bool) {
    if !c {
        println!("REPLAY-ASSUME-FAILED");
        std::process::exit(3);
    }
}

#[cfg(not(kani))]
pub fn model_bound(c: bool) {
    if !c {
        println!("REPLAY-MODEL-BOUND");
        std::process::exit(5);
    }
}

/// Declares a harness: a Kani proof under Kani, a plain function natively.
#[macro_export]
macro_rules! harness {
    ($name:ident, $unwind:expr, $body:block) => {
        #[cfg_attr(kani, kani::proof)]
        #[cfg_attr(kani, kani::unwind($unwind))]
        pub fn $name() $body
    };
}

/// `T::verif_any()` = `any::<T>()` for the scalar types, usable in generic model code.
pub trait Any: Sized {
    fn verif_any() -> Self;
}
macro_rules! any_impl {
    ($($t:ty),*) => {$(
        impl Any for $t {
            fn verif_any() -> Self {
                any::<$t>()
            }
        }
    )*};
}
any_impl!(u8, u16, u32, u64, usize, i32, i64, bool);

/// Minimal model of `std::io::{Read, Write}` + `byteorder` for framing code: in-memory, and an
/// error type without heap or drop glue (`std::io::Error` is costly for CBMC).
pub mod io {
    #[derive(Debug, Clone, Copy, PartialEq)]
    pub enum Error {
        UnexpectedEof,
        WriteZero,
        InvalidData,
    }
    pub type Result<T> = core::result::Result<T, Error>;

    pub trait Write {
        fn write_all(&mut self, buf: &[u8]) -> Result<()>;
    }
    pub trait Read {
        fn read_exact(&mut self, buf: &mut [u8]) -> Result<()>;
    }
    impl<W: Write + ?Sized> Write for &mut W {
        fn write_all(&mut self, buf: &[u8]) -> Result<()> {
            (**self).write_all(buf)
        }
    }
    impl<R: Read + ?Sized> Read for &mut R {
        fn read_exact(&mut self, buf: &mut [u8]) -> Result<()> {
            (**self).read_exact(buf)
        }
    }
    /// like `impl Write for &mut [u8]`: writes at the front and advances
    impl Write for &mut [u8] {
        fn write_all(&mut self, buf: &[u8]) -> Result<()> {
            if buf.len() > self.len() {
                return Err(Error::WriteZero);
            }
            let (a, b) = core::mem::take(self).split_at_mut(buf.len());
            let mut i = 0;
            while i < buf.len() {
                a[i] = buf[i];
                i += 1;
            }
            *self = b;
            Ok(())
        }
    }
    /// like `impl Read for &[u8]`
    impl Read for &[u8] {
        fn read_exact(&mut self, buf: &mut [u8]) -> Result<()> {
            if buf.len() > self.len() {
                return Err(Error::UnexpectedEof);
            }
            let (a, b) = self.split_at(buf.len());
            let mut i = 0;
            while i < buf.len() {
                buf[i] = a[i];
                i += 1;
            }
            *self = b;
            Ok(())
        }
    }

    /// `byteorder::{LittleEndian, ReadBytesExt, WriteBytesExt}` (u32 only)
    pub mod byteorder {
        use super::{Read, Result, Write};
        pub struct LittleEndian;
        pub trait WriteBytesExt: Write {
            fn write_u32<B>(&mut self, v: u32) -> Result<()> {
                self.write_all(&v.to_le_bytes())
            }
        }
        impl<W: Write + ?Sized> WriteBytesExt for W {}
        pub trait ReadBytesExt: Read {
            fn read_u32<B>(&mut self) -> Result<u32> {
                let mut b = [0u8; 4];
                self.read_exact(&mut b)?;
                Ok(u32::from_le_bytes(b))
            }
        }
        impl<R: Read + ?Sized> ReadBytesExt for R {}
    }
}
