//! Second, cheaper model of `roaring::RoaringBitmap` for set-algebra queries: every bitmap is a
//! *finite or co-finite set relative to a symbolic universe* `U = {p0 < p1 < p2 < p3}` of four
//! arbitrary `u32` points chosen once per harness run (`verif_set_universe`).
//!
//!   set = { p_i | bit i of `bits` }                      if !co
//!   set = (all u32 \ U)  ∪  { p_i | bit i of `bits` }    if  co
//!
//! The family is closed under ∪, ∩, \, insert/remove of points of U, `full()` and `new()`, and
//! membership, emptiness and cardinality are exact for every member of the family, so the model is
//! an exact `RoaringBitmap` on that family.  Operations that would leave the family (inserting a
//! point outside U into a finite set, a partial range) are model bounds (`vnd::model_bound`).
//! Because U is symbolic, every 4-tuple of row offsets is covered.
use core::ops::{Bound, RangeBounds};
use vnd::io;

pub const NP: usize = 4;
const ALL: u8 = (1 << NP) - 1;

static mut UNIVERSE: [u32; NP] = [0, 1, 2, 3];

/// Pick the universe: four arbitrary ascending u32 points.
pub fn verif_set_universe() {
    let u: [u32; NP] = vnd::any();
    vnd::assume(u[0] < u[1] && u[1] < u[2] && u[2] < u[3]);
    unsafe {
        UNIVERSE = u;
    }
}

pub fn verif_universe() -> [u32; NP] {
    unsafe { UNIVERSE }
}

fn index_of(v: u32) -> Option<u8> {
    let u = verif_universe();
    if v == u[0] {
        Some(0)
    } else if v == u[1] {
        Some(1)
    } else if v == u[2] {
        Some(2)
    } else if v == u[3] {
        Some(3)
    } else {
        None
    }
}

#[derive(Clone, Copy, PartialEq, Eq, Default)]
pub struct RoaringBitmap {
    bits: u8,
    co: bool,
}

impl core::fmt::Debug for RoaringBitmap {
    fn fmt(&self, _f: &mut core::fmt::Formatter<'_>) -> core::fmt::Result {
        Ok(())
    }
}

impl RoaringBitmap {
    pub fn new() -> Self {
        Self::default()
    }
    pub fn full() -> Self {
        Self { bits: ALL, co: true }
    }
    pub fn verif_wf(&self) -> bool {
        self.bits <= ALL
    }
    /// Model-only: an arbitrary member of the family, finite or co-finite (`max_n` is ignored;
    /// kept for API parity with the interval model).
    pub fn verif_any(_max_n: usize) -> Self {
        let bits: u8 = vnd::any();
        vnd::assume(bits <= ALL);
        Self { bits, co: vnd::any() }
    }
    pub fn verif_any_finite() -> Self {
        let bits: u8 = vnd::any();
        vnd::assume(bits <= ALL);
        Self { bits, co: false }
    }
    pub fn contains(&self, x: u32) -> bool {
        match index_of(x) {
            Some(i) => (self.bits >> i) & 1 == 1,
            None => self.co,
        }
    }
    pub fn insert(&mut self, x: u32) -> bool {
        match index_of(x) {
            Some(i) => {
                let had = (self.bits >> i) & 1 == 1;
                self.bits |= 1 << i;
                !had
            }
            None => {
                vnd::model_bound(self.co);
                false
            }
        }
    }
    pub fn remove(&mut self, x: u32) -> bool {
        match index_of(x) {
            Some(i) => {
                let had = (self.bits >> i) & 1 == 1;
                self.bits &= !(1 << i);
                had
            }
            None => {
                vnd::model_bound(!self.co);
                false
            }
        }
    }
    pub fn insert_range<R: RangeBounds<u32>>(&mut self, range: R) -> u64 {
        let lo = match range.start_bound() {
            Bound::Included(&s) => s as u64,
            Bound::Excluded(&s) => s as u64 + 1,
            Bound::Unbounded => 0,
        };
        let hi = match range.end_bound() {
            Bound::Included(&e) => e as u64 + 1,
            Bound::Excluded(&e) => e as u64,
            Bound::Unbounded => 1 << 32,
        };
        let before = self.len();
        if lo < hi {
            // the range stays inside the family iff it is a set of universe points (finite) or misses
            // only universe points (co-finite); the universe is symbolic, so e.g. `0..u32::MAX` is
            // covered by the universes that contain u32::MAX
            let u = verif_universe();
            let mut inside: u8 = 0;
            let mut i = 0;
            while i < NP {
                if (u[i] as u64) >= lo && (u[i] as u64) < hi {
                    inside |= 1 << i;
                }
                i += 1;
            }
            let size = hi - lo;
            let n_in = inside.count_ones() as u64;
            let n_out = NP as u64 - n_in;
            if size == n_in {
                *self = or(*self, Self { bits: inside, co: false });
            } else {
                vnd::model_bound((1u64 << 32) - size == n_out);
                *self = or(*self, Self { bits: inside, co: true });
            }
        }
        self.len() - before
    }

    pub fn is_empty(&self) -> bool {
        !self.co && self.bits == 0
    }
    pub fn clear(&mut self) {
        *self = Self::default();
    }
    pub fn len(&self) -> u64 {
        let c = self.bits.count_ones() as u64;
        if self.co {
            (1u64 << 32) - (NP as u64 - c)
        } else {
            c
        }
    }
    pub fn min(&self) -> Option<u32> {
        let u = verif_universe();
        if self.co {
            // smallest u32 that is in the set: 0 unless 0 is an excluded universe point ...
            let mut c: u32 = 0;
            let mut i = 0;
            while i < NP {
                if u[i] == c && (self.bits >> i) & 1 == 0 {
                    c += 1; // u is ascending, so one pass suffices (c <= 4)
                }
                i += 1;
            }
            Some(c)
        } else if self.bits == 0 {
            None
        } else {
            Some(u[self.bits.trailing_zeros() as usize])
        }
    }
    pub fn max(&self) -> Option<u32> {
        let u = verif_universe();
        vnd::model_bound(!self.co);
        if self.bits == 0 {
            None
        } else {
            Some(u[7 - self.bits.leading_zeros() as usize])
        }
    }
    pub fn is_disjoint(&self, other: &Self) -> bool {
        (*self & *other).is_empty()
    }
    pub fn iter(&self) -> Iter {
        vnd::model_bound(!self.co);
        Iter { bits: self.bits, i: 0 }
    }

    // ---- serialisation: a private framing (NOT the roaring format), self-inverse, never empty.
    pub fn serialized_size(&self) -> usize {
        2
    }
    pub fn serialize_into<W: io::Write>(&self, mut w: W) -> io::Result<()> {
        w.write_all(&[self.bits, self.co as u8])
    }
    pub fn deserialize_from<R: io::Read>(mut r: R) -> io::Result<Self> {
        let mut b = [0u8; 2];
        r.read_exact(&mut b)?;
        if b[0] > ALL || b[1] > 1 {
            return Err(io::Error::InvalidData);
        }
        Ok(Self { bits: b[0], co: b[1] == 1 })
    }
}

#[derive(Clone)]
pub struct Iter {
    bits: u8,
    i: u32,
}
impl Iterator for Iter {
    type Item = u32;
    fn next(&mut self) -> Option<u32> {
        if self.i >= NP as u32 {
            return None;
        }
        let rest = self.bits >> self.i;
        if rest == 0 {
            self.i = NP as u32;
            return None;
        }
        let k = self.i + rest.trailing_zeros();
        self.i = k + 1;
        Some(verif_universe()[k as usize])
    }
}
pub type IntoIter = Iter;
impl IntoIterator for RoaringBitmap {
    type Item = u32;
    type IntoIter = Iter;
    fn into_iter(self) -> Iter {
        self.iter()
    }
}
impl<'a> IntoIterator for &'a RoaringBitmap {
    type Item = u32;
    type IntoIter = Iter;
    fn into_iter(self) -> Iter {
        self.iter()
    }
}
impl FromIterator<u32> for RoaringBitmap {
    fn from_iter<I: IntoIterator<Item = u32>>(iter: I) -> Self {
        let mut s = Self::new();
        for x in iter {
            s.insert(x);
        }
        s
    }
}
impl Extend<u32> for RoaringBitmap {
    fn extend<I: IntoIterator<Item = u32>>(&mut self, iter: I) {
        for x in iter {
            self.insert(x);
        }
    }
}

fn or(a: RoaringBitmap, b: RoaringBitmap) -> RoaringBitmap {
    RoaringBitmap { bits: a.bits | b.bits, co: a.co || b.co }
}
fn and(a: RoaringBitmap, b: RoaringBitmap) -> RoaringBitmap {
    RoaringBitmap { bits: a.bits & b.bits, co: a.co && b.co }
}
fn sub(a: RoaringBitmap, b: RoaringBitmap) -> RoaringBitmap {
    RoaringBitmap { bits: a.bits & !b.bits & ALL, co: a.co && !b.co }
}
fn xor(a: RoaringBitmap, b: RoaringBitmap) -> RoaringBitmap {
    RoaringBitmap { bits: a.bits ^ b.bits, co: a.co != b.co }
}

macro_rules! binop {
    ($tr:ident, $f:ident, $atr:ident, $af:ident, $op:ident) => {
        impl core::ops::$atr<&RoaringBitmap> for RoaringBitmap {
            fn $af(&mut self, rhs: &RoaringBitmap) {
                *self = $op(*self, *rhs);
            }
        }
        impl core::ops::$atr<RoaringBitmap> for RoaringBitmap {
            fn $af(&mut self, rhs: RoaringBitmap) {
                *self = $op(*self, rhs);
            }
        }
        impl core::ops::$tr<RoaringBitmap> for RoaringBitmap {
            type Output = RoaringBitmap;
            fn $f(self, rhs: RoaringBitmap) -> RoaringBitmap {
                $op(self, rhs)
            }
        }
        impl core::ops::$tr<&RoaringBitmap> for RoaringBitmap {
            type Output = RoaringBitmap;
            fn $f(self, rhs: &RoaringBitmap) -> RoaringBitmap {
                $op(self, *rhs)
            }
        }
        impl core::ops::$tr<RoaringBitmap> for &RoaringBitmap {
            type Output = RoaringBitmap;
            fn $f(self, rhs: RoaringBitmap) -> RoaringBitmap {
                $op(*self, rhs)
            }
        }
        impl core::ops::$tr<&RoaringBitmap> for &RoaringBitmap {
            type Output = RoaringBitmap;
            fn $f(self, rhs: &RoaringBitmap) -> RoaringBitmap {
                $op(*self, *rhs)
            }
        }
    };
}
binop!(BitOr, bitor, BitOrAssign, bitor_assign, or);
binop!(BitAnd, bitand, BitAndAssign, bitand_assign, and);
binop!(Sub, sub, SubAssign, sub_assign, sub);
binop!(BitXor, bitxor, BitXorAssign, bitxor_assign, xor);

/// `roaring::MultiOps` (the subset lance uses).
pub trait MultiOps<T>: IntoIterator<Item = T> {
    type Output;
    fn union(self) -> Self::Output;
}
impl<'a, I: IntoIterator<Item = &'a RoaringBitmap>> MultiOps<&'a RoaringBitmap> for I {
    type Output = RoaringBitmap;
    fn union(self) -> RoaringBitmap {
        let mut out = RoaringBitmap::new();
        for b in self {
            out |= b;
        }
        out
    }
}

/// `roaring::RoaringTreemap`: only what `From<RoaringTreemap> for RowIdTreeMap` touches.
#[derive(Clone, Default, PartialEq, Debug)]
pub struct RoaringTreemap {
    n: usize,
    keys: [u32; 2],
    maps: [RoaringBitmap; 2],
}
impl RoaringTreemap {
    pub fn new() -> Self {
        Self::default()
    }
    pub fn verif_push(&mut self, k: u32, b: RoaringBitmap) {
        vnd::model_bound(self.n < 2);
        self.keys[self.n] = k;
        self.maps[self.n] = b;
        self.n += 1;
    }
    pub fn contains(&self, v: u64) -> bool {
        let mut i = 0;
        let mut r = false;
        while i < 2 {
            if i < self.n && self.keys[i] == (v >> 32) as u32 && self.maps[i].contains(v as u32) {
                r = true;
            }
            i += 1;
        }
        r
    }
    pub fn bitmaps(&self) -> TreemapIter<'_> {
        TreemapIter { t: self, i: 0 }
    }
}
pub struct TreemapIter<'a> {
    t: &'a RoaringTreemap,
    i: usize,
}
impl<'a> Iterator for TreemapIter<'a> {
    type Item = (u32, &'a RoaringBitmap);
    fn next(&mut self) -> Option<Self::Item> {
        if self.i >= self.t.n {
            return None;
        }
        let r = (self.t.keys[self.i], &self.t.maps[self.i]);
        self.i += 1;
        Some(r)
    }
}
