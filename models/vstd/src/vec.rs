//! Fixed-capacity, heap-free model of `Vec<T>` (capacity `VCAP`; growing beyond it is a model
//! bound).  Elements are addressed through concrete indices only (see `collections::pick`).
use core::fmt;

#[cfg(not(any(verif_vcap16, verif_vcap64)))]
pub const VCAP: usize = 4;
#[cfg(verif_vcap16)]
pub const VCAP: usize = 16;
#[cfg(verif_vcap64)]
pub const VCAP: usize = 64;

pub struct Vec<T> {
    n: usize,
    slots: [Option<T>; VCAP],
}

#[inline(always)]
fn pick<T>(slots: &[Option<T>; VCAP], i: usize) -> &Option<T> {
    let mut j = 0;
    while j < VCAP - 1 {
        if j == i {
            return &slots[j];
        }
        j += 1;
    }
    &slots[VCAP - 1]
}
#[inline(always)]
fn pick_mut<T>(slots: &mut [Option<T>; VCAP], i: usize) -> &mut Option<T> {
    let mut k = 0;
    let mut j = 0;
    while j < VCAP - 1 {
        if j == i {
            k = j;
            break;
        }
        j += 1;
        k = j;
    }
    // `k` is a loop counter value on every path, i.e. concrete after unwinding
    &mut slots[k]
}

impl<T> Default for Vec<T> {
    fn default() -> Self {
        Self::new()
    }
}
impl<T: Clone> Clone for Vec<T> {
    fn clone(&self) -> Self {
        let mut out = Self::new();
        let mut i = 0;
        while i < VCAP {
            if i < self.n {
                out.slots[i] = self.slots[i].clone();
            }
            i += 1;
        }
        out.n = self.n;
        out
    }
}
impl<T: PartialEq> PartialEq for Vec<T> {
    fn eq(&self, o: &Self) -> bool {
        if self.n != o.n {
            return false;
        }
        let mut i = 0;
        let mut r = true;
        while i < VCAP {
            if i < self.n && self.slots[i] != o.slots[i] {
                r = false;
            }
            i += 1;
        }
        r
    }
}
impl<T: Eq> Eq for Vec<T> {}
impl<T> fmt::Debug for Vec<T> {
    fn fmt(&self, _f: &mut fmt::Formatter<'_>) -> fmt::Result {
        Ok(())
    }
}

impl<T> Vec<T> {
    pub fn new() -> Self {
        Self { n: 0, slots: [const { None }; VCAP] }
    }
    pub fn with_capacity(_c: usize) -> Self {
        Self::new()
    }
    pub fn len(&self) -> usize {
        self.n
    }
    pub fn capacity(&self) -> usize {
        VCAP
    }
    pub fn is_empty(&self) -> bool {
        self.n == 0
    }
    pub fn push(&mut self, t: T) {
        vnd::model_bound(self.n < VCAP);
        *pick_mut(&mut self.slots, self.n) = Some(t);
        self.n += 1;
    }
    pub fn pop(&mut self) -> Option<T> {
        if self.n == 0 {
            return None;
        }
        self.n -= 1;
        pick_mut(&mut self.slots, self.n).take()
    }
    pub fn clear(&mut self) {
        let mut i = 0;
        while i < VCAP {
            self.slots[i] = None;
            i += 1;
        }
        self.n = 0;
    }
    pub fn truncate(&mut self, len: usize) {
        let mut i = 0;
        while i < VCAP {
            if i >= len {
                self.slots[i] = None;
            }
            i += 1;
        }
        if len < self.n {
            self.n = len;
        }
    }
    pub fn get(&self, i: usize) -> Option<&T> {
        if i < self.n {
            pick(&self.slots, i).as_ref()
        } else {
            None
        }
    }
    pub fn get_mut(&mut self, i: usize) -> Option<&mut T> {
        if i < self.n {
            pick_mut(&mut self.slots, i).as_mut()
        } else {
            None
        }
    }
    pub fn first(&self) -> Option<&T> {
        self.get(0)
    }
    pub fn last(&self) -> Option<&T> {
        if self.n == 0 {
            None
        } else {
            self.get(self.n - 1)
        }
    }
    pub fn last_mut(&mut self) -> Option<&mut T> {
        if self.n == 0 {
            None
        } else {
            let i = self.n - 1;
            self.get_mut(i)
        }
    }
    pub fn iter(&self) -> Iter<'_, T> {
        Iter { v: self, i: 0 }
    }
    pub fn iter_mut(&mut self) -> IterMut<'_, T> {
        let n = self.n;
        IterMut { inner: self.slots.iter_mut(), left: n }
    }
    pub fn extend_from_slice(&mut self, s: &[T])
    where
        T: Clone,
    {
        for t in s {
            self.push(t.clone());
        }
    }
    pub fn insert(&mut self, i: usize, t: T) {
        vnd::model_bound(self.n < VCAP);
        assert!(i <= self.n);
        let mut j = VCAP - 1;
        while j > 0 {
            if j > i && j <= self.n {
                self.slots[j] = self.slots[j - 1].take();
            }
            j -= 1;
        }
        *pick_mut(&mut self.slots, i) = Some(t);
        self.n += 1;
    }
    pub fn remove(&mut self, i: usize) -> T {
        assert!(i < self.n);
        let old = pick_mut(&mut self.slots, i).take();
        let mut j = 0;
        while j + 1 < VCAP {
            if j >= i && j + 1 < self.n {
                self.slots[j] = self.slots[j + 1].take();
            }
            j += 1;
        }
        self.n -= 1;
        old.unwrap()
    }
    pub fn retain<F: FnMut(&T) -> bool>(&mut self, mut f: F) {
        let mut w = 0;
        let mut r = 0;
        let n = self.n;
        while r < VCAP {
            if r < n {
                let e = self.slots[r].take();
                let keep = match e.as_ref() {
                    Some(t) => f(t),
                    None => false,
                };
                if keep {
                    *pick_mut(&mut self.slots, w) = e;
                    w += 1;
                }
            }
            r += 1;
        }
        self.n = w;
    }
    pub fn contains(&self, t: &T) -> bool
    where
        T: PartialEq,
    {
        let mut i = 0;
        let mut r = false;
        while i < VCAP {
            if i < self.n {
                if let Some(x) = &self.slots[i] {
                    if x == t {
                        r = true;
                    }
                }
            }
            i += 1;
        }
        r
    }
    /// insertion sort (ascending), the model of `sort`/`sort_unstable`
    pub fn sort(&mut self)
    where
        T: Ord,
    {
        let mut i = 1;
        while i < VCAP {
            if i < self.n {
                let mut j = i;
                while j > 0 {
                    let swap = match (&self.slots[j - 1], &self.slots[j]) {
                        (Some(a), Some(b)) => a > b,
                        _ => false,
                    };
                    if swap {
                        self.slots.swap(j - 1, j);
                    }
                    j -= 1;
                }
            }
            i += 1;
        }
    }
    pub fn sort_unstable(&mut self)
    where
        T: Ord,
    {
        self.sort()
    }
}

impl<T> core::ops::Index<usize> for Vec<T> {
    type Output = T;
    fn index(&self, i: usize) -> &T {
        assert!(i < self.n, "index out of bounds");
        pick(&self.slots, i).as_ref().unwrap()
    }
}
impl<T> core::ops::IndexMut<usize> for Vec<T> {
    fn index_mut(&mut self, i: usize) -> &mut T {
        assert!(i < self.n, "index out of bounds");
        pick_mut(&mut self.slots, i).as_mut().unwrap()
    }
}

pub struct Iter<'a, T> {
    v: &'a Vec<T>,
    i: usize,
}
impl<'a, T> Clone for Iter<'a, T> {
    fn clone(&self) -> Self {
        Iter { v: self.v, i: self.i }
    }
}
impl<'a, T> Iterator for Iter<'a, T> {
    type Item = &'a T;
    fn next(&mut self) -> Option<&'a T> {
        if self.i >= self.v.n {
            return None;
        }
        let r = pick(&self.v.slots, self.i).as_ref();
        self.i += 1;
        r
    }
    fn size_hint(&self) -> (usize, Option<usize>) {
        let l = self.v.n - self.i;
        (l, Some(l))
    }
}
pub struct IterMut<'a, T> {
    inner: core::slice::IterMut<'a, Option<T>>,
    left: usize,
}
impl<'a, T> Iterator for IterMut<'a, T> {
    type Item = &'a mut T;
    fn next(&mut self) -> Option<&'a mut T> {
        if self.left == 0 {
            return None;
        }
        self.left -= 1;
        match self.inner.next() {
            Some(Some(t)) => Some(t),
            _ => None,
        }
    }
}
pub struct IntoIter<T> {
    v: Vec<T>,
    i: usize,
}
impl<T> Iterator for IntoIter<T> {
    type Item = T;
    fn next(&mut self) -> Option<T> {
        if self.i >= self.v.n {
            return None;
        }
        let r = pick_mut(&mut self.v.slots, self.i).take();
        self.i += 1;
        r
    }
    fn size_hint(&self) -> (usize, Option<usize>) {
        let l = self.v.n - self.i;
        (l, Some(l))
    }
}
impl<T> IntoIterator for Vec<T> {
    type Item = T;
    type IntoIter = IntoIter<T>;
    fn into_iter(self) -> IntoIter<T> {
        IntoIter { v: self, i: 0 }
    }
}
impl<'a, T> IntoIterator for &'a Vec<T> {
    type Item = &'a T;
    type IntoIter = Iter<'a, T>;
    fn into_iter(self) -> Iter<'a, T> {
        self.iter()
    }
}
impl<'a, T> IntoIterator for &'a mut Vec<T> {
    type Item = &'a mut T;
    type IntoIter = IterMut<'a, T>;
    fn into_iter(self) -> IterMut<'a, T> {
        self.iter_mut()
    }
}
impl<T> FromIterator<T> for Vec<T> {
    fn from_iter<I: IntoIterator<Item = T>>(iter: I) -> Self {
        let mut v = Self::new();
        for t in iter {
            v.push(t);
        }
        v
    }
}
impl<T> Extend<T> for Vec<T> {
    fn extend<I: IntoIterator<Item = T>>(&mut self, iter: I) {
        for t in iter {
            self.push(t);
        }
    }
}
impl<T: Clone> From<&[T]> for Vec<T> {
    fn from(s: &[T]) -> Self {
        let mut v = Self::new();
        v.extend_from_slice(s);
        v
    }
}
