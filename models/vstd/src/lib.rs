//! Heap-free, fixed-capacity models of the `std` containers the transplanted lance code uses.
//!
//! They are *environment models*: CBMC cannot carry the real B-tree / hashbrown code (measured:
//! two concrete inserts into `BTreeMap<u32,u8>` run out of memory), so the code under test is
//! compiled against these instead.  Semantics: a map is a partial function from keys to values,
//! iteration is in ascending key order (the `BTreeMap` contract; for `HashMap`/`HashSet` any
//! order is allowed by `std`, ascending is one of them).  Capacity is `CAP` entries; inserting
//! beyond it is a *model bound* (`vnd::model_bound`): such paths are outside the claim.

pub mod collections;
pub mod vec;
pub mod cvec;
pub use collections::CAP;
