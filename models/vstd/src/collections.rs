use core::borrow::Borrow;
use core::fmt;

/// Capacity of every map/set model (entries).
#[cfg(not(verif_cap6))]
pub const CAP: usize = 4;
#[cfg(verif_cap6)]
pub const CAP: usize = 6;

/// Select slot `i` through a *concrete* index: CBMC turns `slots[sym]` on an array of large
/// structs into byte-level updates with a symbolic offset (measured: 10 M variables for one
/// insert); a chain of guarded concrete accesses stays small.
#[inline(always)]
fn pick<T>(slots: &[Option<T>; CAP], i: usize) -> &Option<T> {
    let mut j = 0;
    while j < CAP - 1 {
        if j == i {
            return &slots[j];
        }
        j += 1;
    }
    &slots[CAP - 1]
}
#[inline(always)]
fn pick_mut<T>(slots: &mut [Option<T>; CAP], i: usize) -> &mut Option<T> {
    if i == 0 {
        return &mut slots[0];
    }
    if i == 1 {
        return &mut slots[1];
    }
    if i == 2 {
        return &mut slots[2];
    }
    #[cfg(verif_cap6)]
    {
        if i == 3 {
            return &mut slots[3];
        }
        if i == 4 {
            return &mut slots[4];
        }
    }
    &mut slots[CAP - 1]
}

pub struct BTreeMap<K, V> {
    n: usize,
    slots: [Option<(K, V)>; CAP],
}

pub type HashMap<K, V> = BTreeMap<K, V>;

impl<K, V> Default for BTreeMap<K, V> {
    fn default() -> Self {
        Self::new()
    }
}

impl<K: Clone, V: Clone> Clone for BTreeMap<K, V> {
    fn clone(&self) -> Self {
        let mut out = Self::new();
        let mut i = 0;
        while i < self.n {
            out.slots[i] = self.slots[i].clone();
            i += 1;
        }
        out.n = self.n;
        out
    }
}

impl<K: PartialEq, V: PartialEq> PartialEq for BTreeMap<K, V> {
    fn eq(&self, other: &Self) -> bool {
        if self.n != other.n {
            return false;
        }
        let mut i = 0;
        while i < self.n {
            match (&self.slots[i], &other.slots[i]) {
                (Some((ka, va)), Some((kb, vb))) => {
                    if ka != kb || va != vb {
                        return false;
                    }
                }
                _ => return false,
            }
            i += 1;
        }
        true
    }
}
impl<K: Eq, V: Eq> Eq for BTreeMap<K, V> {}

impl<K, V> fmt::Debug for BTreeMap<K, V> {
    fn fmt(&self, _f: &mut fmt::Formatter<'_>) -> fmt::Result {
        Ok(())
    }
}

impl<K, V> BTreeMap<K, V> {
    pub fn new() -> Self {
        Self {
            n: 0,
            slots: [const { None }; CAP],
        }
    }
    pub fn with_capacity(_c: usize) -> Self {
        Self::new()
    }
    pub fn len(&self) -> usize {
        self.n
    }
    pub fn is_empty(&self) -> bool {
        self.n == 0
    }
    pub fn clear(&mut self) {
        let mut i = 0;
        while i < CAP {
            self.slots[i] = None;
            i += 1;
        }
        self.n = 0;
    }
    pub fn iter(&self) -> Iter<'_, K, V> {
        Iter { m: self, i: 0 }
    }
    pub fn iter_mut(&mut self) -> IterMut<'_, K, V> {
        let n = self.n;
        IterMut {
            inner: self.slots.iter_mut(),
            left: n,
        }
    }
    pub fn values(&self) -> Values<'_, K, V> {
        Values { m: self, i: 0 }
    }
    pub fn values_mut(&mut self) -> ValuesMut<'_, K, V> {
        ValuesMut {
            inner: self.iter_mut(),
        }
    }
    pub fn keys(&self) -> Keys<'_, K, V> {
        Keys { m: self, i: 0 }
    }
    pub fn into_values(self) -> IntoValues<K, V> {
        IntoValues {
            inner: self.into_iter(),
        }
    }
    pub fn into_keys(self) -> IntoKeys<K, V> {
        IntoKeys {
            inner: self.into_iter(),
        }
    }
    pub fn retain<F: FnMut(&K, &mut V) -> bool>(&mut self, mut f: F) {
        let mut w = 0;
        let mut r = 0;
        let n = self.n;
        while r < n {
            let mut e = self.slots[r].take();
            let keep = match e.as_mut() {
                Some((k, v)) => f(k, v),
                None => false,
            };
            if keep {
                *pick_mut(&mut self.slots, w) = e;
                w += 1;
            }
            r += 1;
        }
        self.n = w;
    }
    pub fn first_key_value(&self) -> Option<(&K, &V)> {
        if self.n == 0 {
            None
        } else {
            self.slots[0].as_ref().map(|(k, v)| (k, v))
        }
    }
    pub fn last_key_value(&self) -> Option<(&K, &V)> {
        if self.n == 0 {
            None
        } else {
            pick(&self.slots, self.n - 1).as_ref().map(|(k, v)| (k, v))
        }
    }
    /// Model-only: direct construction of an arbitrary pre-state (keys must be ascending).
    pub fn verif_push_back(&mut self, k: K, v: V) {
        vnd::model_bound(self.n < CAP);
        *pick_mut(&mut self.slots, self.n) = Some((k, v));
        self.n += 1;
    }
}

impl<K: Ord, V> BTreeMap<K, V> {
    // index of first entry with key >= k, and whether it is equal
    fn locate<Q: ?Sized + Ord>(&self, k: &Q) -> (usize, bool)
    where
        K: Borrow<Q>,
    {
        let mut i = 0;
        while i < self.n {
            if let Some((ki, _)) = &self.slots[i] {
                let kb: &Q = ki.borrow();
                if kb == k {
                    return (i, true);
                }
                if kb > k {
                    return (i, false);
                }
            }
            i += 1;
        }
        (self.n, false)
    }
    pub fn get<Q: ?Sized + Ord>(&self, k: &Q) -> Option<&V>
    where
        K: Borrow<Q>,
    {
        let (i, found) = self.locate(k);
        if found {
            pick(&self.slots, i).as_ref().map(|(_, v)| v)
        } else {
            None
        }
    }
    pub fn get_mut<Q: ?Sized + Ord>(&mut self, k: &Q) -> Option<&mut V>
    where
        K: Borrow<Q>,
    {
        let (i, found) = self.locate(k);
        if found {
            pick_mut(&mut self.slots, i).as_mut().map(|(_, v)| v)
        } else {
            None
        }
    }
    pub fn contains_key<Q: ?Sized + Ord>(&self, k: &Q) -> bool
    where
        K: Borrow<Q>,
    {
        self.locate(k).1
    }
    fn insert_at(&mut self, k: K, v: V) -> (usize, Option<V>) {
        let (i, found) = self.locate(&k);
        if found {
            let slot = pick_mut(&mut self.slots, i);
            let old = slot.take().map(|(_, v)| v);
            *slot = Some((k, v));
            return (i, old);
        }
        vnd::model_bound(self.n < CAP);
        // shift right with concrete indices, guarded by the symbolic position
        let mut j = CAP - 1;
        while j > 0 {
            if j > i && j <= self.n {
                self.slots[j] = self.slots[j - 1].take();
            }
            j -= 1;
        }
        *pick_mut(&mut self.slots, i) = Some((k, v));
        self.n += 1;
        (i, None)
    }
    pub fn insert(&mut self, k: K, v: V) -> Option<V> {
        self.insert_at(k, v).1
    }
    pub fn remove<Q: ?Sized + Ord>(&mut self, k: &Q) -> Option<V>
    where
        K: Borrow<Q>,
    {
        let (i, found) = self.locate(k);
        if !found {
            return None;
        }
        let old = pick_mut(&mut self.slots, i).take().map(|(_, v)| v);
        let mut j = 0;
        while j + 1 < CAP {
            if j >= i && j + 1 < self.n {
                self.slots[j] = self.slots[j + 1].take();
            }
            j += 1;
        }
        self.n -= 1;
        old
    }
    pub fn entry(&mut self, k: K) -> Entry<'_, K, V> {
        let (i, found) = self.locate(&k);
        if found {
            Entry::Occupied(OccupiedEntry { m: self, i })
        } else {
            Entry::Vacant(VacantEntry { m: self, k })
        }
    }
}

pub struct OccupiedEntry<'a, K, V> {
    m: &'a mut BTreeMap<K, V>,
    i: usize,
}
pub struct VacantEntry<'a, K, V> {
    m: &'a mut BTreeMap<K, V>,
    k: K,
}
pub enum Entry<'a, K, V> {
    Occupied(OccupiedEntry<'a, K, V>),
    Vacant(VacantEntry<'a, K, V>),
}

impl<'a, K, V> OccupiedEntry<'a, K, V> {
    pub fn into_mut(self) -> &'a mut V {
        &mut pick_mut(&mut self.m.slots, self.i).as_mut().unwrap().1
    }
    pub fn get(&self) -> &V {
        &pick(&self.m.slots, self.i).as_ref().unwrap().1
    }
    pub fn get_mut(&mut self) -> &mut V {
        &mut pick_mut(&mut self.m.slots, self.i).as_mut().unwrap().1
    }
    pub fn insert(&mut self, v: V) -> V {
        core::mem::replace(self.get_mut(), v)
    }
}
impl<'a, K: Ord, V> VacantEntry<'a, K, V> {
    pub fn insert(self, v: V) -> &'a mut V {
        let (i, _) = self.m.insert_at(self.k, v);
        &mut pick_mut(&mut self.m.slots, i).as_mut().unwrap().1
    }
}
impl<'a, K: Ord, V> Entry<'a, K, V> {
    pub fn or_insert_with<F: FnOnce() -> V>(self, f: F) -> &'a mut V {
        match self {
            Entry::Occupied(o) => o.into_mut(),
            Entry::Vacant(v) => v.insert(f()),
        }
    }
    pub fn or_insert(self, v: V) -> &'a mut V {
        self.or_insert_with(|| v)
    }
    pub fn or_default(self) -> &'a mut V
    where
        V: Default,
    {
        self.or_insert_with(V::default)
    }
    pub fn and_modify<F: FnOnce(&mut V)>(mut self, f: F) -> Self {
        if let Entry::Occupied(o) = &mut self {
            f(o.get_mut());
        }
        self
    }
}

pub struct Iter<'a, K, V> {
    m: &'a BTreeMap<K, V>,
    i: usize,
}
impl<'a, K, V> Clone for Iter<'a, K, V> {
    fn clone(&self) -> Self {
        Iter { m: self.m, i: self.i }
    }
}
impl<'a, K, V> Iterator for Iter<'a, K, V> {
    type Item = (&'a K, &'a V);
    fn next(&mut self) -> Option<Self::Item> {
        if self.i >= self.m.n {
            return None;
        }
        let r = pick(&self.m.slots, self.i).as_ref().map(|(k, v)| (k, v));
        self.i += 1;
        r
    }
}
pub struct Values<'a, K, V> {
    m: &'a BTreeMap<K, V>,
    i: usize,
}
impl<'a, K, V> Iterator for Values<'a, K, V> {
    type Item = &'a V;
    fn next(&mut self) -> Option<Self::Item> {
        if self.i >= self.m.n {
            return None;
        }
        let r = pick(&self.m.slots, self.i).as_ref().map(|(_, v)| v);
        self.i += 1;
        r
    }
}
pub struct Keys<'a, K, V> {
    m: &'a BTreeMap<K, V>,
    i: usize,
}
impl<'a, K, V> Iterator for Keys<'a, K, V> {
    type Item = &'a K;
    fn next(&mut self) -> Option<Self::Item> {
        if self.i >= self.m.n {
            return None;
        }
        let r = pick(&self.m.slots, self.i).as_ref().map(|(k, _)| k);
        self.i += 1;
        r
    }
}
pub struct IterMut<'a, K, V> {
    inner: core::slice::IterMut<'a, Option<(K, V)>>,
    left: usize,
}
impl<'a, K, V> Iterator for IterMut<'a, K, V> {
    type Item = (&'a K, &'a mut V);
    fn next(&mut self) -> Option<Self::Item> {
        if self.left == 0 {
            return None;
        }
        self.left -= 1;
        match self.inner.next() {
            Some(Some((k, v))) => Some((&*k, v)),
            _ => None,
        }
    }
}
pub struct ValuesMut<'a, K, V> {
    inner: IterMut<'a, K, V>,
}
impl<'a, K, V> Iterator for ValuesMut<'a, K, V> {
    type Item = &'a mut V;
    fn next(&mut self) -> Option<Self::Item> {
        self.inner.next().map(|(_, v)| v)
    }
}
pub struct IntoIter<K, V> {
    m: BTreeMap<K, V>,
    i: usize,
}
impl<K, V> Iterator for IntoIter<K, V> {
    type Item = (K, V);
    fn next(&mut self) -> Option<Self::Item> {
        if self.i >= self.m.n {
            return None;
        }
        let r = pick_mut(&mut self.m.slots, self.i).take();
        self.i += 1;
        r
    }
}
pub struct IntoValues<K, V> {
    inner: IntoIter<K, V>,
}
impl<K, V> Iterator for IntoValues<K, V> {
    type Item = V;
    fn next(&mut self) -> Option<V> {
        self.inner.next().map(|(_, v)| v)
    }
}
pub struct IntoKeys<K, V> {
    inner: IntoIter<K, V>,
}
impl<K, V> Iterator for IntoKeys<K, V> {
    type Item = K;
    fn next(&mut self) -> Option<K> {
        self.inner.next().map(|(k, _)| k)
    }
}
impl<K, V> IntoIterator for BTreeMap<K, V> {
    type Item = (K, V);
    type IntoIter = IntoIter<K, V>;
    fn into_iter(self) -> IntoIter<K, V> {
        IntoIter { m: self, i: 0 }
    }
}
impl<'a, K, V> IntoIterator for &'a BTreeMap<K, V> {
    type Item = (&'a K, &'a V);
    type IntoIter = Iter<'a, K, V>;
    fn into_iter(self) -> Iter<'a, K, V> {
        self.iter()
    }
}
impl<'a, K, V> IntoIterator for &'a mut BTreeMap<K, V> {
    type Item = (&'a K, &'a mut V);
    type IntoIter = IterMut<'a, K, V>;
    fn into_iter(self) -> IterMut<'a, K, V> {
        self.iter_mut()
    }
}
impl<K: Ord, V> FromIterator<(K, V)> for BTreeMap<K, V> {
    fn from_iter<T: IntoIterator<Item = (K, V)>>(iter: T) -> Self {
        let mut m = Self::new();
        for (k, v) in iter {
            m.insert(k, v);
        }
        m
    }
}
impl<K: Ord, V> Extend<(K, V)> for BTreeMap<K, V> {
    fn extend<T: IntoIterator<Item = (K, V)>>(&mut self, iter: T) {
        for (k, v) in iter {
            self.insert(k, v);
        }
    }
}
impl<K: Ord, Q: ?Sized + Ord, V> core::ops::Index<&Q> for BTreeMap<K, V>
where
    K: Borrow<Q>,
{
    type Output = V;
    fn index(&self, k: &Q) -> &V {
        self.get(k).expect("no entry found for key")
    }
}

// ---------------------------------------------------------------------------------------------

pub struct BTreeSet<T> {
    m: BTreeMap<T, ()>,
}
pub type HashSet<T> = BTreeSet<T>;

impl<T> Default for BTreeSet<T> {
    fn default() -> Self {
        Self { m: BTreeMap::new() }
    }
}
impl<T: Clone> Clone for BTreeSet<T> {
    fn clone(&self) -> Self {
        Self { m: self.m.clone() }
    }
}
impl<T: PartialEq> PartialEq for BTreeSet<T> {
    fn eq(&self, o: &Self) -> bool {
        self.m == o.m
    }
}
impl<T: Eq> Eq for BTreeSet<T> {}
impl<T> fmt::Debug for BTreeSet<T> {
    fn fmt(&self, _f: &mut fmt::Formatter<'_>) -> fmt::Result {
        Ok(())
    }
}
impl<T> BTreeSet<T> {
    pub fn new() -> Self {
        Self::default()
    }
    pub fn with_capacity(_c: usize) -> Self {
        Self::default()
    }
    pub fn len(&self) -> usize {
        self.m.len()
    }
    pub fn is_empty(&self) -> bool {
        self.m.is_empty()
    }
    pub fn iter(&self) -> Keys<'_, T, ()> {
        self.m.keys()
    }
    pub fn clear(&mut self) {
        self.m.clear()
    }
    pub fn retain<F: FnMut(&T) -> bool>(&mut self, mut f: F) {
        self.m.retain(|k, _| f(k))
    }
    pub fn first(&self) -> Option<&T> {
        self.m.first_key_value().map(|(k, _)| k)
    }
    pub fn last(&self) -> Option<&T> {
        self.m.last_key_value().map(|(k, _)| k)
    }
}
impl<T> BTreeSet<T> {
    /// `HashSet::drain`: empties the set, yielding its elements.
    pub fn drain(&mut self) -> IntoKeys<T, ()> {
        core::mem::take(&mut self.m).into_keys()
    }
    pub fn verif_push_back(&mut self, t: T) {
        self.m.verif_push_back(t, ());
    }
}

impl<T: Ord> BTreeSet<T> {
    pub fn insert(&mut self, t: T) -> bool {
        if self.m.contains_key(&t) {
            false
        } else {
            self.m.insert(t, ());
            true
        }
    }
    pub fn contains<Q: ?Sized + Ord>(&self, t: &Q) -> bool
    where
        T: Borrow<Q>,
    {
        self.m.contains_key(t)
    }
    pub fn remove<Q: ?Sized + Ord>(&mut self, t: &Q) -> bool
    where
        T: Borrow<Q>,
    {
        self.m.remove(t).is_some()
    }
    pub fn is_disjoint(&self, other: &Self) -> bool {
        let mut it = self.iter();
        while let Some(k) = it.next() {
            if other.m.contains_key(k) {
                return false;
            }
        }
        true
    }
    pub fn is_subset(&self, other: &Self) -> bool {
        let mut it = self.iter();
        while let Some(k) = it.next() {
            if !other.m.contains_key(k) {
                return false;
            }
        }
        true
    }
}
impl<T: Ord> FromIterator<T> for BTreeSet<T> {
    fn from_iter<I: IntoIterator<Item = T>>(iter: I) -> Self {
        let mut s = Self::new();
        for t in iter {
            s.insert(t);
        }
        s
    }
}
impl<T: Ord> Extend<T> for BTreeSet<T> {
    fn extend<I: IntoIterator<Item = T>>(&mut self, iter: I) {
        for t in iter {
            self.insert(t);
        }
    }
}
impl<T> IntoIterator for BTreeSet<T> {
    type Item = T;
    type IntoIter = IntoKeys<T, ()>;
    fn into_iter(self) -> Self::IntoIter {
        self.m.into_keys()
    }
}
impl<'a, T> IntoIterator for &'a BTreeSet<T> {
    type Item = &'a T;
    type IntoIter = Keys<'a, T, ()>;
    fn into_iter(self) -> Self::IntoIter {
        self.m.keys()
    }
}
