//! Fixed-capacity model of `Vec<T>` for plain-data elements (`T: Clone + Default`): contiguous
//! storage, so it derefs to a real slice and every slice method (`iter`, `binary_search`,
//! `first`, `last`, indexing by range, ...) is the real `core` code.  Capacity `CCAP`.
use core::fmt;
use core::ops::{Deref, DerefMut};

#[cfg(not(any(verif_ccap8, verif_ccap16, verif_ccap64)))]
pub const CCAP: usize = 4;
#[cfg(verif_ccap64)]
pub const CCAP: usize = 64;
#[cfg(verif_ccap8)]
pub const CCAP: usize = 8;
#[cfg(verif_ccap16)]
pub const CCAP: usize = 16;

#[derive(Clone)]
pub struct Vec<T: Clone + Default> {
    n: usize,
    data: [T; CCAP],
}

impl<T: Clone + Default> Default for Vec<T> {
    fn default() -> Self {
        Self::new()
    }
}
impl<T: Clone + Default> fmt::Debug for Vec<T> {
    fn fmt(&self, _f: &mut fmt::Formatter<'_>) -> fmt::Result {
        Ok(())
    }
}
impl<T: Clone + Default + PartialEq> PartialEq for Vec<T> {
    fn eq(&self, o: &Self) -> bool {
        if self.n != o.n {
            return false;
        }
        let mut i = 0;
        let mut r = true;
        while i < CCAP {
            if i < self.n && self.data[i] != o.data[i] {
                r = false;
            }
            i += 1;
        }
        r
    }
}
impl<T: Clone + Default + Eq> Eq for Vec<T> {}

impl<T: Clone + Default> Vec<T> {
    pub fn new() -> Self {
        Self { n: 0, data: core::array::from_fn(|_| T::default()) }
    }
    pub fn with_capacity(_c: usize) -> Self {
        Self::new()
    }
    /// `vec![elem; n]`
    pub fn verif_filled(elem: T, n: usize) -> Self {
        vnd::model_bound(n <= CCAP);
        let mut v = Self::new();
        let mut i = 0;
        while i < CCAP {
            if i < n {
                v.data[i] = elem.clone();
            }
            i += 1;
        }
        v.n = n;
        v
    }
    /// Model-only: an arbitrary vector of length <= max_len.
    pub fn verif_any(max_len: usize) -> Self
    where
        T: vnd::Any,
    {
        let n: usize = vnd::any();
        vnd::assume(n <= max_len && n <= CCAP);
        let mut v = Self::new();
        let mut i = 0;
        while i < CCAP {
            if i < n {
                v.data[i] = T::verif_any();
            }
            i += 1;
        }
        v.n = n;
        v
    }
    pub fn push(&mut self, t: T) {
        vnd::model_bound(self.n < CCAP);
        self.data[self.n] = t;
        self.n += 1;
    }
    pub fn pop(&mut self) -> Option<T> {
        if self.n == 0 {
            None
        } else {
            self.n -= 1;
            Some(core::mem::take(&mut self.data[self.n]))
        }
    }
    pub fn clear(&mut self) {
        self.n = 0;
    }
    pub fn truncate(&mut self, len: usize) {
        if len < self.n {
            self.n = len;
        }
    }
    pub fn as_slice(&self) -> &[T] {
        &self.data[..self.n]
    }
    pub fn capacity(&self) -> usize {
        CCAP
    }
    pub fn extend_from_slice(&mut self, s: &[T]) {
        for t in s {
            self.push(t.clone());
        }
    }
    pub fn insert(&mut self, i: usize, t: T) {
        vnd::model_bound(self.n < CCAP);
        assert!(i <= self.n);
        let mut j = CCAP - 1;
        while j > 0 {
            if j > i && j <= self.n {
                self.data[j] = core::mem::take(&mut self.data[j - 1]);
            }
            j -= 1;
        }
        self.data[i] = t;
        self.n += 1;
    }
    pub fn remove(&mut self, i: usize) -> T {
        assert!(i < self.n);
        let old = core::mem::take(&mut self.data[i]);
        let mut j = 0;
        while j + 1 < CCAP {
            if j >= i && j + 1 < self.n {
                self.data[j] = core::mem::take(&mut self.data[j + 1]);
            }
            j += 1;
        }
        self.n -= 1;
        old
    }
    pub fn retain<F: FnMut(&T) -> bool>(&mut self, mut f: F) {
        let mut w = 0;
        let mut r = 0;
        while r < CCAP {
            if r < self.n {
                let t = core::mem::take(&mut self.data[r]);
                if f(&t) {
                    self.data[w] = t;
                    w += 1;
                }
            }
            r += 1;
        }
        self.n = w;
    }
    /// insertion sort: the model of `sort` / `sort_unstable`
    pub fn sort(&mut self)
    where
        T: Ord,
    {
        let mut i = 1;
        while i < CCAP {
            if i < self.n {
                let mut j = i;
                while j > 0 {
                    if self.data[j - 1] > self.data[j] {
                        self.data.swap(j - 1, j);
                    }
                    j -= 1;
                }
            }
            i += 1;
        }
    }
    pub fn sort_unstable(&mut self)
    where
        T: Ord,
    {
        self.sort()
    }
    pub fn into_iter(self) -> IntoIter<T> {
        IntoIter { v: self, i: 0 }
    }
}

impl<T: Clone + Default> Deref for Vec<T> {
    type Target = [T];
    fn deref(&self) -> &[T] {
        &self.data[..self.n]
    }
}
impl<T: Clone + Default> DerefMut for Vec<T> {
    fn deref_mut(&mut self) -> &mut [T] {
        let n = self.n;
        &mut self.data[..n]
    }
}

#[derive(Clone)]
pub struct IntoIter<T: Clone + Default> {
    v: Vec<T>,
    i: usize,
}
impl<T: Clone + Default> Iterator for IntoIter<T> {
    type Item = T;
    fn next(&mut self) -> Option<T> {
        if self.i >= self.v.n {
            return None;
        }
        let r = core::mem::take(&mut self.v.data[self.i]);
        self.i += 1;
        Some(r)
    }
    fn size_hint(&self) -> (usize, Option<usize>) {
        let l = self.v.n - self.i;
        (l, Some(l))
    }
}
impl<T: Clone + Default> DoubleEndedIterator for IntoIter<T> {
    fn next_back(&mut self) -> Option<T> {
        if self.i >= self.v.n {
            return None;
        }
        self.v.n -= 1;
        Some(core::mem::take(&mut self.v.data[self.v.n]))
    }
}
impl<T: Clone + Default> IntoIterator for Vec<T> {
    type Item = T;
    type IntoIter = IntoIter<T>;
    fn into_iter(self) -> IntoIter<T> {
        IntoIter { v: self, i: 0 }
    }
}
impl<'a, T: Clone + Default> IntoIterator for &'a Vec<T> {
    type Item = &'a T;
    type IntoIter = core::slice::Iter<'a, T>;
    fn into_iter(self) -> Self::IntoIter {
        self.deref().iter()
    }
}
impl<T: Clone + Default> FromIterator<T> for Vec<T> {
    fn from_iter<I: IntoIterator<Item = T>>(iter: I) -> Self {
        let mut v = Self::new();
        for t in iter {
            v.push(t);
        }
        v
    }
}
impl<T: Clone + Default> Extend<T> for Vec<T> {
    fn extend<I: IntoIterator<Item = T>>(&mut self, iter: I) {
        for t in iter {
            self.push(t);
        }
    }
}
impl<T: Clone + Default> From<&[T]> for Vec<T> {
    fn from(s: &[T]) -> Self {
        let mut v = Self::new();
        v.extend_from_slice(s);
        v
    }
}

/// `std::collections::VecDeque` on top of the vector model (front operations shift).
#[derive(Clone, Debug, Default)]
pub struct VecDeque<T: Clone + Default> {
    v: Vec<T>,
}
impl<T: Clone + Default> VecDeque<T> {
    pub fn new() -> Self {
        Self { v: Vec::new() }
    }
    pub fn with_capacity(_c: usize) -> Self {
        Self::new()
    }
    pub fn len(&self) -> usize {
        self.v.len()
    }
    pub fn is_empty(&self) -> bool {
        self.v.len() == 0
    }
    pub fn push_back(&mut self, t: T) {
        self.v.push(t)
    }
    pub fn push_front(&mut self, t: T) {
        self.v.insert(0, t)
    }
    pub fn pop_front(&mut self) -> Option<T> {
        if self.v.len() == 0 {
            None
        } else {
            Some(self.v.remove(0))
        }
    }
    pub fn pop_back(&mut self) -> Option<T> {
        self.v.pop()
    }
    pub fn front(&self) -> Option<&T> {
        self.v.first()
    }
    pub fn iter(&self) -> core::slice::Iter<'_, T> {
        self.v.iter()
    }
}
