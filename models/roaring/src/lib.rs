//! Heap-free model of `roaring::RoaringBitmap`: a set of `u32` represented as at most `K`
//! disjoint, non-adjacent, ascending half-open intervals `[lo, hi)` with `hi <= 2^32`
//! (canonical form, so derived equality is set equality).
//!
//! The model is *exact* on the whole `u32` domain for every set of interval-complexity <= K
//! (including the empty and the full set).  An operation whose result needs more than K
//! intervals is a model bound (`vnd::model_bound`): outside the claim, never a verdict.
//! Each operation is checked against its pointwise set-theoretic definition by the harnesses
//! in `/verif/units/models`, and differentially against the real crate by
//! `/verif/models/difftest`.

use core::ops::{Bound, RangeBounds};
use std::io;

#[cfg(not(verif_k6))]
pub const K: usize = 3;
#[cfg(verif_k6)]
pub const K: usize = 6;

const TOP: u64 = 1 << 32;

#[derive(Clone, Copy, PartialEq, Eq, Default)]
pub struct RoaringBitmap {
    n: usize,
    lo: [u64; K],
    hi: [u64; K],
}

impl core::fmt::Debug for RoaringBitmap {
    fn fmt(&self, _f: &mut core::fmt::Formatter<'_>) -> core::fmt::Result {
        Ok(())
    }
}

/// API parity with the bitset model (which draws a symbolic universe); nothing to do here.
pub fn verif_set_universe() {}

#[derive(Clone, Copy)]
enum Op {
    Or,
    And,
    Sub,
    Xor,
}

impl RoaringBitmap {
    pub fn new() -> Self {
        Self::default()
    }

    pub fn full() -> Self {
        let mut s = Self::default();
        s.n = 1;
        s.lo[0] = 0;
        s.hi[0] = TOP;
        s
    }

    /// Model-only: the representation invariant.
    pub fn verif_wf(&self) -> bool {
        if self.n > K {
            return false;
        }
        let mut i = 0;
        let mut prev_hi: u64 = 0;
        while i < K {
            if i < self.n {
                if !(self.lo[i] < self.hi[i] && self.hi[i] <= TOP) {
                    return false;
                }
                if i > 0 && !(self.lo[i] > prev_hi) {
                    return false;
                }
                prev_hi = self.hi[i];
            } else if self.lo[i] != 0 || self.hi[i] != 0 {
                return false;
            }
            i += 1;
        }
        true
    }

    /// Model-only: an arbitrary set of interval-complexity <= `max_n` (<= K).
    pub fn verif_any(max_n: usize) -> Self {
        let mut s = Self::default();
        let n: usize = vnd::any();
        vnd::assume(n <= max_n && n <= K);
        s.n = n;
        let mut i = 0;
        while i < K {
            if i < n {
                s.lo[i] = vnd::any::<u32>() as u64;
                s.hi[i] = (vnd::any::<u32>() as u64) + 1;
            }
            i += 1;
        }
        vnd::assume(s.verif_wf());
        s
    }

    pub fn verif_any_finite() -> Self {
        Self::verif_any(K)
    }

    /// Model-only: build from explicit inclusive intervals (used by native replays).
    pub fn verif_interval_count(&self) -> usize {
        self.n
    }
    pub fn verif_interval(&self, i: usize) -> (u32, u32) {
        (self.lo[i] as u32, (self.hi[i] - 1) as u32)
    }

    fn has(&self, x: u64) -> bool {
        let mut i = 0;
        let mut r = false;
        while i < K {
            if i < self.n && self.lo[i] <= x && x < self.hi[i] {
                r = true;
            }
            i += 1;
        }
        r
    }

    // smallest boundary strictly greater than pos, or TOP
    fn next_boundary(&self, pos: u64) -> u64 {
        let mut best = TOP;
        let mut i = 0;
        while i < K {
            if i < self.n {
                if self.lo[i] > pos && self.lo[i] < best {
                    best = self.lo[i];
                }
                if self.hi[i] > pos && self.hi[i] < best {
                    best = self.hi[i];
                }
            }
            i += 1;
        }
        best
    }

    fn push_segment(&mut self, lo: u64, hi: u64) {
        if self.n > 0 && self.hi[self.n - 1] == lo {
            self.hi[self.n - 1] = hi;
        } else {
            vnd::model_bound(self.n < K);
            self.lo[self.n] = lo;
            self.hi[self.n] = hi;
            self.n += 1;
        }
    }

    fn combine(a: &Self, b: &Self, op: Op) -> Self {
        let mut out = Self::default();
        let mut pos: u64 = 0;
        let mut step = 0;
        // at most 4K boundaries in (0, TOP) plus the final segment
        while step < 4 * K + 1 {
            if pos < TOP {
                let ina = a.has(pos);
                let inb = b.has(pos);
                let na = a.next_boundary(pos);
                let nb = b.next_boundary(pos);
                let next = if na < nb { na } else { nb };
                let keep = match op {
                    Op::Or => ina || inb,
                    Op::And => ina && inb,
                    Op::Sub => ina && !inb,
                    Op::Xor => ina != inb,
                };
                if keep {
                    out.push_segment(pos, next);
                }
                pos = next;
            }
            step += 1;
        }
        out
    }

    fn single_range(lo: u64, hi: u64) -> Self {
        let mut s = Self::default();
        if lo < hi {
            s.n = 1;
            s.lo[0] = lo;
            s.hi[0] = hi;
        }
        s
    }

    pub fn contains(&self, x: u32) -> bool {
        self.has(x as u64)
    }

    pub fn insert(&mut self, x: u32) -> bool {
        self.insert_range(x..=x) == 1
    }

    pub fn push(&mut self, x: u32) -> bool {
        match self.max() {
            Some(m) if m >= x => false,
            _ => {
                self.insert(x);
                true
            }
        }
    }

    pub fn remove(&mut self, x: u32) -> bool {
        let had = self.contains(x);
        if had {
            *self = Self::combine(self, &Self::single_range(x as u64, x as u64 + 1), Op::Sub);
        }
        had
    }

    fn bounds<R: RangeBounds<u32>>(range: R) -> (u64, u64) {
        let lo = match range.start_bound() {
            Bound::Included(&s) => s as u64,
            Bound::Excluded(&s) => s as u64 + 1,
            Bound::Unbounded => 0,
        };
        let hi = match range.end_bound() {
            Bound::Included(&e) => e as u64 + 1,
            Bound::Excluded(&e) => e as u64,
            Bound::Unbounded => TOP,
        };
        (lo, hi)
    }

    pub fn insert_range<R: RangeBounds<u32>>(&mut self, range: R) -> u64 {
        let (lo, hi) = Self::bounds(range);
        if lo >= hi {
            return 0;
        }
        // single pass: intervals strictly before / strictly after are copied, the rest is merged
        let before = self.len();
        let mut out = Self::default();
        let (mut nl, mut nh) = (lo, hi);
        let mut placed = false;
        let mut i = 0;
        while i < K {
            if i < self.n {
                if self.hi[i] < nl {
                    out.push_segment(self.lo[i], self.hi[i]);
                } else if self.lo[i] > nh {
                    if !placed {
                        out.push_segment(nl, nh);
                        placed = true;
                    }
                    out.push_segment(self.lo[i], self.hi[i]);
                } else {
                    if self.lo[i] < nl {
                        nl = self.lo[i];
                    }
                    if self.hi[i] > nh {
                        nh = self.hi[i];
                    }
                }
            }
            i += 1;
        }
        if !placed {
            out.push_segment(nl, nh);
        }
        *self = out;
        self.len() - before
    }

    pub fn remove_range<R: RangeBounds<u32>>(&mut self, range: R) -> u64 {
        let (lo, hi) = Self::bounds(range);
        let before = self.len();
        *self = Self::combine(self, &Self::single_range(lo, hi), Op::Sub);
        before - self.len()
    }

    pub fn range_cardinality<R: RangeBounds<u32>>(&self, range: R) -> u64 {
        let (lo, hi) = Self::bounds(range);
        // sum of the overlaps (single pass; cheaper for the solver than the generic merge)
        let mut t: u64 = 0;
        let mut i = 0;
        while i < K {
            if i < self.n {
                let a = if self.lo[i] > lo { self.lo[i] } else { lo };
                let b = if self.hi[i] < hi { self.hi[i] } else { hi };
                if a < b {
                    t += b - a;
                }
            }
            i += 1;
        }
        t
    }

    pub fn contains_range<R: RangeBounds<u32>>(&self, range: R) -> bool {
        let (lo, hi) = Self::bounds(range);
        if lo >= hi {
            return true;
        }
        // intervals are disjoint and non-adjacent: a range is contained iff one interval covers it
        let mut r = false;
        let mut i = 0;
        while i < K {
            if i < self.n && self.lo[i] <= lo && hi <= self.hi[i] {
                r = true;
            }
            i += 1;
        }
        r
    }

    /// Number of elements <= x.
    pub fn rank(&self, x: u32) -> u64 {
        self.range_cardinality(0..=x)
    }

    pub fn is_empty(&self) -> bool {
        self.n == 0
    }

    pub fn clear(&mut self) {
        *self = Self::default();
    }

    pub fn len(&self) -> u64 {
        let mut t: u64 = 0;
        let mut i = 0;
        while i < K {
            if i < self.n {
                t += self.hi[i] - self.lo[i];
            }
            i += 1;
        }
        t
    }

    pub fn min(&self) -> Option<u32> {
        if self.n == 0 {
            None
        } else {
            Some(self.lo[0] as u32)
        }
    }

    pub fn max(&self) -> Option<u32> {
        if self.n == 0 {
            None
        } else {
            Some((self.hi[self.n - 1] - 1) as u32)
        }
    }

    pub fn is_disjoint(&self, other: &Self) -> bool {
        Self::combine(self, other, Op::And).is_empty()
    }

    pub fn intersection_len(&self, other: &Self) -> u64 {
        Self::combine(self, other, Op::And).len()
    }

    pub fn is_subset(&self, other: &Self) -> bool {
        Self::combine(self, other, Op::Sub).is_empty()
    }

    pub fn iter(&self) -> Iter {
        Iter {
            bm: *self,
            i: 0,
            next: if self.n > 0 { self.lo[0] } else { 0 },
        }
    }

    /// Nth smallest element (0-based).
    pub fn select(&self, n: u32) -> Option<u32> {
        let mut rem = n as u64;
        let mut i = 0;
        while i < K {
            if i < self.n {
                let l = self.hi[i] - self.lo[i];
                if rem < l {
                    return Some((self.lo[i] + rem) as u32);
                }
                rem -= l;
            }
            i += 1;
        }
        None
    }

    // ---- serialisation: a private framing (NOT the roaring format), self-inverse, never empty.
    pub fn serialized_size(&self) -> usize {
        4 + 8 * self.n
    }

    pub fn serialize_into<W: io::Write>(&self, mut w: W) -> io::Result<()> {
        w.write_all(&(self.n as u32).to_le_bytes())?;
        let mut i = 0;
        while i < K {
            if i < self.n {
                w.write_all(&(self.lo[i] as u32).to_le_bytes())?;
                w.write_all(&((self.hi[i] - 1) as u32).to_le_bytes())?;
            }
            i += 1;
        }
        Ok(())
    }

    pub fn deserialize_from<R: io::Read>(mut r: R) -> io::Result<Self> {
        let mut b4 = [0u8; 4];
        r.read_exact(&mut b4)?;
        let n = u32::from_le_bytes(b4) as usize;
        if n > K {
            return Err(io::Error::from(io::ErrorKind::InvalidData));
        }
        let mut s = Self::default();
        s.n = n;
        let mut i = 0;
        while i < K {
            if i < n {
                r.read_exact(&mut b4)?;
                s.lo[i] = u32::from_le_bytes(b4) as u64;
                r.read_exact(&mut b4)?;
                s.hi[i] = u32::from_le_bytes(b4) as u64 + 1;
            }
            i += 1;
        }
        if !s.verif_wf() {
            return Err(io::Error::from(io::ErrorKind::InvalidData));
        }
        Ok(s)
    }

    pub fn from_sorted_iter<I: IntoIterator<Item = u32>>(
        iter: I,
    ) -> Result<Self, NonSortedIntegers> {
        let mut s = Self::new();
        for x in iter {
            if !s.push(x) {
                return Err(NonSortedIntegers);
            }
        }
        Ok(s)
    }

    pub fn append<I: IntoIterator<Item = u32>>(
        &mut self,
        iter: I,
    ) -> Result<u64, NonSortedIntegers> {
        let mut c = 0;
        for x in iter {
            if !self.push(x) {
                return Err(NonSortedIntegers);
            }
            c += 1;
        }
        Ok(c)
    }
}

#[derive(Debug, PartialEq, Eq)]
pub struct NonSortedIntegers;

#[derive(Clone)]
pub struct Iter {
    bm: RoaringBitmap,
    i: usize,
    next: u64,
}
impl Iterator for Iter {
    type Item = u32;
    fn next(&mut self) -> Option<u32> {
        if self.i >= self.bm.n {
            return None;
        }
        let v = self.next;
        if v + 1 < self.bm.hi[self.i] {
            self.next = v + 1;
        } else {
            self.i += 1;
            if self.i < self.bm.n {
                self.next = self.bm.lo[self.i];
            }
        }
        Some(v as u32)
    }
}
pub type IntoIter = Iter;

impl IntoIterator for RoaringBitmap {
    type Item = u32;
    type IntoIter = Iter;
    fn into_iter(self) -> Iter {
        self.iter()
    }
}
impl<'a> IntoIterator for &'a RoaringBitmap {
    type Item = u32;
    type IntoIter = Iter;
    fn into_iter(self) -> Iter {
        self.iter()
    }
}
impl FromIterator<u32> for RoaringBitmap {
    fn from_iter<I: IntoIterator<Item = u32>>(iter: I) -> Self {
        let mut s = Self::new();
        for x in iter {
            s.insert(x);
        }
        s
    }
}
impl<'a> FromIterator<&'a u32> for RoaringBitmap {
    fn from_iter<I: IntoIterator<Item = &'a u32>>(iter: I) -> Self {
        let mut s = Self::new();
        for x in iter {
            s.insert(*x);
        }
        s
    }
}
impl Extend<u32> for RoaringBitmap {
    fn extend<I: IntoIterator<Item = u32>>(&mut self, iter: I) {
        for x in iter {
            self.insert(x);
        }
    }
}
impl<'a> Extend<&'a u32> for RoaringBitmap {
    fn extend<I: IntoIterator<Item = &'a u32>>(&mut self, iter: I) {
        for x in iter {
            self.insert(*x);
        }
    }
}

macro_rules! binop {
    ($tr:ident, $f:ident, $atr:ident, $af:ident, $op:expr) => {
        impl core::ops::$atr<&RoaringBitmap> for RoaringBitmap {
            fn $af(&mut self, rhs: &RoaringBitmap) {
                *self = RoaringBitmap::combine(self, rhs, $op);
            }
        }
        impl core::ops::$atr<RoaringBitmap> for RoaringBitmap {
            fn $af(&mut self, rhs: RoaringBitmap) {
                *self = RoaringBitmap::combine(self, &rhs, $op);
            }
        }
        impl core::ops::$tr<RoaringBitmap> for RoaringBitmap {
            type Output = RoaringBitmap;
            fn $f(self, rhs: RoaringBitmap) -> RoaringBitmap {
                RoaringBitmap::combine(&self, &rhs, $op)
            }
        }
        impl core::ops::$tr<&RoaringBitmap> for RoaringBitmap {
            type Output = RoaringBitmap;
            fn $f(self, rhs: &RoaringBitmap) -> RoaringBitmap {
                RoaringBitmap::combine(&self, rhs, $op)
            }
        }
        impl core::ops::$tr<RoaringBitmap> for &RoaringBitmap {
            type Output = RoaringBitmap;
            fn $f(self, rhs: RoaringBitmap) -> RoaringBitmap {
                RoaringBitmap::combine(self, &rhs, $op)
            }
        }
        impl core::ops::$tr<&RoaringBitmap> for &RoaringBitmap {
            type Output = RoaringBitmap;
            fn $f(self, rhs: &RoaringBitmap) -> RoaringBitmap {
                RoaringBitmap::combine(self, rhs, $op)
            }
        }
    };
}
binop!(BitOr, bitor, BitOrAssign, bitor_assign, Op::Or);
binop!(BitAnd, bitand, BitAndAssign, bitand_assign, Op::And);
binop!(Sub, sub, SubAssign, sub_assign, Op::Sub);
binop!(BitXor, bitxor, BitXorAssign, bitxor_assign, Op::Xor);

/// `roaring::MultiOps` (the subset lance uses).
pub trait MultiOps<T>: IntoIterator<Item = T> {
    type Output;
    fn union(self) -> Self::Output;
    fn intersection(self) -> Self::Output;
}
impl<'a, I: IntoIterator<Item = &'a RoaringBitmap>> MultiOps<&'a RoaringBitmap> for I {
    type Output = RoaringBitmap;
    fn union(self) -> RoaringBitmap {
        let mut out = RoaringBitmap::new();
        for b in self {
            out |= b;
        }
        out
    }
    fn intersection(self) -> RoaringBitmap {
        let mut out = RoaringBitmap::full();
        let mut any = false;
        for b in self {
            out &= b;
            any = true;
        }
        if any {
            out
        } else {
            RoaringBitmap::new()
        }
    }
}

/// `roaring::RoaringTreemap`: only what `From<RoaringTreemap> for RowIdTreeMap` touches.
#[derive(Clone, Default, PartialEq, Debug)]
pub struct RoaringTreemap {
    n: usize,
    keys: [u32; 2],
    maps: [RoaringBitmap; 2],
}
impl RoaringTreemap {
    pub fn new() -> Self {
        Self::default()
    }
    /// Model-only constructor: ascending keys.
    pub fn verif_push(&mut self, k: u32, b: RoaringBitmap) {
        vnd::model_bound(self.n < 2);
        self.keys[self.n] = k;
        self.maps[self.n] = b;
        self.n += 1;
    }
    pub fn contains(&self, v: u64) -> bool {
        let mut i = 0;
        let mut r = false;
        while i < 2 {
            if i < self.n && self.keys[i] == (v >> 32) as u32 && self.maps[i].contains(v as u32) {
                r = true;
            }
            i += 1;
        }
        r
    }
    pub fn bitmaps(&self) -> TreemapIter<'_> {
        TreemapIter { t: self, i: 0 }
    }
}
pub struct TreemapIter<'a> {
    t: &'a RoaringTreemap,
    i: usize,
}
impl<'a> Iterator for TreemapIter<'a> {
    type Item = (u32, &'a RoaringBitmap);
    fn next(&mut self) -> Option<Self::Item> {
        if self.i >= self.t.n {
            return None;
        }
        let r = (self.t.keys[self.i], &self.t.maps[self.i]);
        self.i += 1;
        Some(r)
    }
}
