#!/bin/bash
# usage: tools/try_seed.sh <patch.diff> <PROP> [check args...]
# Applies the patch to /repo, runs bin/check, and ALWAYS restores /repo afterwards.
set -u
patch=$(readlink -f "$1"); prop=$2; shift 2
cd /repo || exit 9
if ! git diff --quiet; then echo "try_seed: /repo has uncommitted changes"; exit 9; fi
git apply "$patch" || { echo "try_seed: patch does not apply"; exit 9; }
cd /verif
VERIF_RETRY=0 bin/check "$prop" "$@"
rc=$?
git -C /repo checkout -- .
echo "try_seed: check exit=$rc (1 = caught)"
exit $rc
