#!/bin/bash
# usage: tools/try_seed_wt.sh <patch.diff> <PROP> [check args...]
# Like try_seed.sh but leaves /repo alone: the patch is applied to a scratch worktree and the check
# reads that tree (VERIF_REPO).  For use while other runs are reading /repo.
set -u
patch=$(readlink -f "$1"); prop=$2; shift 2
wt=/tmp/seedwt_$$
git -C /repo worktree add -q --detach $wt HEAD || exit 9
git -C $wt apply "$patch" || { echo "try_seed_wt: patch does not apply"; git -C /repo worktree remove --force $wt; exit 9; }
cd /verif
VERIF_REPO=$wt bin/check "$prop" "$@"
rc=$?
git -C /repo worktree remove --force $wt
echo "try_seed_wt: check exit=$rc (1 = caught)"
exit $rc
