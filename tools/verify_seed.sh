#!/bin/bash
# usage: verify_seed.sh <worktree> <seed_dir> <crate> <demo_test_name> [extra lib-test crates...]
# In the scratch worktree: demo must FAIL with the patch and PASS without; lib tests of the crate(s) must pass with the patch.
set -u
wt=$1; sd=$2; crate=$3; tname=$4; shift 4
export CARGO_TARGET_DIR=$wt/target CARGO_NET_OFFLINE=true
cd $wt || exit 9
git checkout -q -- . ; git clean -fdq rust/ 2>/dev/null
cdir=$(cargo metadata --offline --format-version 1 --no-deps 2>/dev/null | python3 -c "import json,sys,os;m=json.load(sys.stdin);print([os.path.dirname(p['manifest_path']) for p in m['packages'] if p['name']=='$crate'][0])")
mkdir -p $cdir/tests; cp $sd/demo.rs $cdir/tests/$tname.rs
cargo test --offline -p $crate --test $tname > $sd/verify_demo_without.log 2>&1; r0=$?
git apply $sd/patch.diff || { echo "APPLY FAILED"; exit 9; }
cargo test --offline -p $crate --test $tname > $sd/verify_demo_with.log 2>&1; r1=$?
libs_ok=1
for c in $crate "$@"; do
  cargo test --offline -p $c --lib > $sd/verify_lib_$c.log 2>&1 || libs_ok=0
done
git checkout -q -- . ; rm -f $cdir/tests/$tname.rs; rmdir $cdir/tests 2>/dev/null
echo "VERIFY $sd: demo_without_rc=$r0 (want 0) demo_with_rc=$r1 (want !=0) libs_ok=$libs_ok"
