#!/usr/bin/env python3
"""Print the prompt given to an independent sub-agent that seeds a property-breaking change.
Only the property text and a scratch worktree path are disclosed (nothing from /verif)."""
import json, sys
pid, wt = sys.argv[1], sys.argv[2]
n = int(sys.argv[3]) if len(sys.argv) > 3 else 2
for l in open('/verif/properties.jsonl'):
    p = json.loads(l)
    if p['id'] == pid:
        break
else:
    sys.exit('no such property')
print(f"""You are helping test a verification effort for the Rust project lancedb/lance (a columnar file/table format). You have your own scratch git worktree of the repository at {wt} (detached HEAD). Work ONLY inside {wt} (and /tmp/out_{pid.lower()} for your outputs). Do not touch /repo or /verif, and do not read anything under /verif. The machine is offline: use `cargo ... --offline`; all dependencies are already in the cargo cache. Build output is large, so build only the crates you need (`-p <crate>`), and set CARGO_TARGET_DIR={wt}/target.

Here is a semantic property that the code base is supposed to satisfy:

  id: {p['id']}
  title: {p['title']}
  statement: {p['statement']}
  quantified over: {json.dumps(p['quantifier'])}
  code anchors: {json.dumps(p['anchors'])}

Task: produce {n} independent, realistic changes ("seeded bugs") to the lance source code, each of which
  (a) BREAKS the property above (for at least one input / history / schedule),
  (b) still COMPILES, and
  (c) still PASSES the existing test suite of the crate(s) it touches (run at least `cargo test --offline -p <crate> --lib` for each touched crate and confirm no new failure; some tests in lance-io about cloud object stores fail already without any change -- ignore those).
Prefer subtle changes that need something specific to manifest -- an unusual or boundary input, a particular combination of variants, a multi-step sequence of operations, or two cooperating sites that each look fine alone -- not changes that ordinary use would expose at once. They should look like plausible mistakes or 'optimisations' a developer might really make (off-by-one at a 32-bit boundary, a swapped match arm for a rare variant combination, a dropped case, a wrong constant, a missed normalisation, wrong rounding, etc.). Each change should be small (a few lines) and confined to non-test code. The {n} changes should be in different functions (ideally different mechanisms of the property).

For each change i = 1..{n} write into /tmp/out_{pid.lower()}/<i>/ :
  - patch.diff : `git diff` of the change against the worktree HEAD (must apply with `git apply` on a clean checkout of HEAD);
  - a demonstration: a small Rust test or program (e.g. demo.rs written as an extra #[test] that can be dropped into a tests/ directory or a `#[cfg(test)]` module, with exact instructions in README.md how to run it) that FAILS with the change applied and PASSES without it. Actually run it both ways and record the outputs in README.md;
  - README.md : what the change does, why it breaks the property, what specific input/sequence is needed to manifest it, which existing tests you ran (commands and pass/fail counts).
Between changes, restore the worktree (`git checkout -- .`) so each patch is independent. When finished, leave the worktree clean (git checkout -- . ; remove any files you added to it; delete {wt}/target to free disk) and reply with a short summary: for each change, the file/function touched, the manifesting input, and the test commands you ran with results.""")
